import AdeuModel.Lemmas.LGrow
import AdeuModel.Lemmas.ComGrow
import AdeuModel.Model.History
import AdeuModel.Lemmas.Engine
import AdeuModel.Lemmas.Review
import AdeuModel.Lemmas.History
import AdeuModel.Lemmas.AttrHistory
/-
C07 — multi-round negotiation keeps the document consistent.

The single-step theorems (C01, C06, C08, C09, C10, C16) are stated for every document, hence for
every document a history reaches; what is specific to histories is stated here by induction over
the list of steps: the accounting of every round, freshness of the ids of every round with respect
to everything earlier rounds (and authors) left in the document, and that what earlier rounds left
pending can be resolved one by one.  The agreement of the whole history with the real engine —
saved bytes after every step — is the correspondence of this check.
-/
namespace Adeu.Props.C07
open Adeu Adeu.Doc

/-- every round reports applied + skipped = number of requests of that round -/
theorem C07_accounting (d : Document) (steps : List Step) :
    (runHistory d steps).2.length = steps.length ∧
    ∀ i (h : i < steps.length) (h' : i < (runHistory d steps).2.length),
      ((runHistory d steps).2[i]).1 + ((runHistory d steps).2[i]).2 = (steps[i]).requests := by
  induction steps generalizing d with
  | nil => exact ⟨rfl, fun i h => absurd h (Nat.not_lt_zero _)⟩
  | cons st rest ih =>
    obtain ⟨ih1, ih2⟩ := ih (stepDoc d st).1
    refine ⟨by simp [runHistory, ih1], ?_⟩
    intro i h h'
    cases i with
    | zero =>
      simp only [runHistory, List.getElem_cons_zero]
      cases st with
      | edits a es => exact applyEditsIndexed_total _ es
      | actions a acts => exact applyActions_total _ acts
      | acceptAll => rfl
    | succ i =>
      simp only [runHistory, List.getElem_cons_succ]
      exact ih2 i (by simpa using h) (by simpa [runHistory] using h')

/-- In every round, whoever the author, the ids handed out are larger than every numeric revision id
that the document carries at that point — the input's ids and the ids of all earlier rounds alike —
in the main part and in every reachable header / footer part: revision ids stay unique across
rounds and authors whenever the input's were. -/
theorem C07_ids_fresh_every_round (d : Document) (steps : List Step) (dk : Document) (hk : dk ∈ reached d steps)
    (author : Str) (bs : List Block) (n : Node) (rev : Rev) (k : Nat)
    (hbs : bs ∈ docParts (normalize dk)) (hn : n ∈ allNodesBlocks bs) (hform : revOf n = some rev)
    (hid : strNat? rev.id = some k) :
    k < (Sess.open dk author sessionDate).nextRev + 1 :=
  newRev_fresh dk author sessionDate bs n rev k hbs hn hform hid

/-- What an earlier round left pending stays individually resolvable: in every document a history
reaches, accepting / rejecting a change id acts on exactly the marks with that id, leaves no mark
with that id behind, and every other node of the paragraph is untouched and in place. -/
theorem C07_pending_resolvable (acc : Bool) (id : Str) (ns : List Node) :
    (∀ m ∈ ns.flatMap (actN acc id), hasRevN id m = false) ∧
    (∀ n ∈ ns, hasRevN id n = false → actN acc id n = [n]) :=
  ⟨actNodes_clears acc id ns, fun n _ h => actN_other acc id n h⟩

/-- accept-all at any point of a history leaves no revision mark and does not change the accepted text -/
theorem C07_accept_all_clean (ns : List Node) :
    acceptedChars (ns.flatMap acceptAllN) = acceptedChars ns ∧ ∀ m ∈ ns.flatMap acceptAllN, isRevN m = false :=
  ⟨acceptedChars_acceptAllN ns, acceptAllN_noRev ns⟩

/-- Over any history — edit batches by any authors, review actions, replies, accept-all, with save and reload
between rounds — every story keeps its skeleton (each paragraph's style and properties, tables with their
properties, rows, cells, other blocks, all in order; paragraphs are only ever added) and every comment entry
that is present at some point is still there, in the same place of all four comment lists, at the end. -/
theorem C07_history_frame (d : Document) (steps : List Step) :
    (skel d.body).Sublist (skel (runHistory d steps).1.body) ∧
    SkelLe d.headers (runHistory d steps).1.headers ∧ SkelLe d.footers (runHistory d steps).1.footers ∧
    d.comments <+: (runHistory d steps).1.comments ∧ d.commentsEx <+: (runHistory d steps).1.commentsEx :=
  let g := DocGrows_runHistory steps d
  ⟨g.skel.body, g.skel.headers, g.skel.footers, g.comments, g.commentsEx⟩

/-- Over any history: every revision mark in the final document is a mark of the original document (unchanged id,
author, date) or was created in one of the edit rounds — it carries that round's author and the session date.
Review rounds, replies and accept-all add no marks and re-label none. -/
theorem C07_marks_over_history (d : Document) (steps : List Step) :
    ∀ x ∈ revsDoc (runHistory d steps).1,
      x ∈ revsDoc d ∨ (x.date = some sessionDate ∧ ∃ a ∈ roundAuthors steps, x.author = some a) :=
  marks_over_history steps d

/-- the reached documents: one more than the number of steps, starting with the input -/
theorem C07_reached_length (d : Document) (steps : List Step) :
    (reached d steps).length = steps.length + 1 ∧ (reached d steps).head? = some d := by
  induction steps generalizing d with
  | nil => exact ⟨rfl, rfl⟩
  | cons st rest ih => exact ⟨by simp [reached, (ih _).1], rfl⟩

/-- Over any history - edit rounds, review rounds with replies, accept-all, a save and reload between rounds - every
entry of the comments part at the end is an entry of the original document or was written in one of the rounds, under
that round's author. -/
theorem C07_comments_over_history (steps : List Step) (d : Document) :
    ∀ c ∈ (runHistory d steps).1.comments, c ∈ d.comments ∨ ∃ a ∈ sessionAuthors steps, c.author = some a :=
  comments_over_history steps d

/-- ... and the comment ids stay pairwise distinct through the whole history (every round reloads the document and
restarts its counter above the ids it finds). -/
theorem C07_comment_ids_unique_over_history (steps : List Step) (d : Document)
    (h : (d.comments.map (·.id)).Nodup) : ((runHistory d steps).1.comments.map (·.id)).Nodup :=
  comment_ids_unique_over_history steps d h

/-- ... and the four comment parts stay linked entry by entry through the whole history. -/
theorem C07_comment_parts_linked_over_history (steps : List Step) (d : Document) (h : DocLinked d) :
    DocLinked (runHistory d steps).1 :=
  linked_over_history steps d h

end Adeu.Props.C07
