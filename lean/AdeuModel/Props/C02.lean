import AdeuModel.Lemmas.Lines
import AdeuModel.Lemmas.Trim
import AdeuModel.Lemmas.Frame
import AdeuModel.Lemmas.Effective
/-
C02 — accepting the changes yields exactly the requested text.
Part (a): the context-trimming step `_trim_common_context` (model `Adeu.Trim.trim`) never trims
anything that is not common to target and new text — for all strings and every whitespace
predicate (this replaces "every pair up to a length bound").
-/
namespace Adeu.Props.C02
open Adeu Adeu.Trim

/-- The trimmed prefix and suffix fit into both strings and are common to them. -/
theorem C02_trim_contract (sp : Char → Bool) (t n : Str) :
    (trim sp t n).1 + (trim sp t n).2 ≤ min t.length n.length ∧
    t.take (trim sp t n).1 = n.take (trim sp t n).1 ∧
    t.drop (t.length - (trim sp t n).2) = n.drop (n.length - (trim sp t n).2) :=
  trim_inv sp t n

/-- Hence replacing the trimmed middle of the target by the trimmed middle of the new text inside
the target gives exactly the new text. -/
theorem C02_trim_reassemble (sp : Char → Bool) (t n : Str) :
    t.take (trim sp t n).1 ++ (n.take (n.length - (trim sp t n).2)).drop (trim sp t n).1 ++
      t.drop (t.length - (trim sp t n).2) = n := by
  obtain ⟨hl, hp, hs⟩ := trim_inv sp t n
  generalize (trim sp t n).1 = p at *
  generalize (trim sp t n).2 = s at *
  rw [hp, hs]
  have h1 : p ≤ n.length - s := by omega
  have : (n.take (n.length - s)).drop p = (n.drop p).take (n.length - s - p) := List.drop_take
  rw [this]
  have h2 : n.take p ++ (n.drop p).take (n.length - s - p) = n.take (n.length - s) := by
    have := @List.take_add _ n p (n.length - s - p)
    rw [show p + (n.length - s - p) = n.length - s by omega] at this
    exact this.symm
  rw [h2, List.take_append_drop]

/-! Part (b): where the engine looks for the target (`Adeu.Doc.locate`, the lookup of
`_apply_single_edit_heuristic`), in terms of the text a client extracts. -/
open Adeu.Doc in
/-- A target that is an exact piece of the raw extracted text and touches no deleted text is located at its
first occurrence there, with exactly its own length: no accepted-view lookup, no fuzzy matcher, whatever the
recorded results of the non-literal matchers are. -/
theorem C02_located_where_read (s : Sess) (e : HEdit) (i : Nat) (hcm : s.cmap = commentsMap s.doc)
    (h : Markup.find e.target (extractText false s.doc) = some i)
    (hd : touchesDeletion (s.spans false) i (i + e.target.length) = false) :
    locate s e = some ⟨false, i, e.target.length⟩ := by
  rw [← spans_text_eq_extractText s _ hcm] at h
  exact locate_exact_raw s e i h hd

open Adeu.Doc in
/-- A target that runs across tracked-deleted text — an exact piece of the accepted view only — is located at
its first occurrence in the accepted view, before any fuzzy lookup in either view. -/
theorem C02_located_in_accepted_view (s : Sess) (e : HEdit) (i : Nat) (hcm : s.cmap = commentsMap s.doc)
    (h1 : Markup.find e.target (extractText false s.doc) = none)
    (h2 : Markup.find (Markup.replaceSmart e.target) (Markup.replaceSmart (extractText false s.doc)) = none)
    (h : Markup.find e.target (extractText true s.doc) = some i) :
    locate s e = some ⟨true, i, e.target.length⟩ := by
  rw [← spans_text_eq_extractText s _ hcm] at h1 h2 h
  exact locate_exact_clean s e i h1 h2 h

/-! Part (c): what reaches the indexed step means the same on the text as what was submitted. -/
open Adeu.Doc in
/-- Trimming the common context, or turning an extension into an insertion, never changes what the edit means on
the text: replacing the effective range by the effective text gives exactly the text with the whole matched range
replaced by the whole new text — for every text, every in-bounds match and every new text. -/
theorem C02_effective_edit_same_text (text : Str) (start len : Nat) (new : Str) (hb : start + len ≤ text.length) :
    (match effectiveEdit text start len new with
     | none => text
     | some (s', l', n') => text.take s' ++ n' ++ text.drop (s' + l')) =
    text.take start ++ new ++ text.drop (start + len) :=
  effectiveEdit_same_text text start len new hb

open Adeu.Doc in
/-- … and `effectiveEdit` is what the model of `_apply_single_edit_heuristic` computes before it calls the indexed
step (directly, or through the rewrite for text inside a pending insertion). -/
theorem C02_heuristic_applies_effective_edit (s : Sess) (m : HMatch) (e : HEdit) :
    heuristicDirect s m e =
      match effectiveEdit (ospansText (s.spans m.clean)) m.start m.len e.new with
      | none => (s, true)
      | some (st, ln, nw) =>
        if ln = 0 then
          match nestedInsertAt s m.clean st nw e.comment with
          | some r => r
          | none => applyIndexed s m.clean st 0 nw e.comment (some .insertion)
        else
          match nestedProxyAt s m.clean st ln nw e.comment with
          | some r => r
          | none => applyIndexed s m.clean st ln nw e.comment (some (if nw.isEmpty then .deletion else .modification)) :=
  heuristicDirect_eq s m e

example : Doc.effectiveEdit "Hello big world".toList 0 15 "Hello small world".toList = some (6, 3, "small".toList) := by decide

example : trim pyIsSpace "Hello big world".toList "Hello small world".toList = (6, 6) := by decide

/-- **A rewritten insertion reads as its replacement text.**  When an edit lands inside a pending insertion the
engine replaces that insertion by one carrying the insertion's text with the range replaced (`nestedText`); when
that text has line breaks it stays one inline insertion (`inlineLines`).  For lines without bold / italic markers,
what the reader extracts from the new insertion is exactly that text (a break as newline, a literal tab as the
space the reader shows for it): no character of the insertion is lost or reordered. -/
theorem C02_rewritten_insertion_reads_as_replacement (text : Str) (style : Option Doc.Run)
    (hp : ∀ l ∈ Doc.splitBreaks text, Doc.PlainLine l) :
    (Doc.inlineLines text style).flatMap Doc.childText = text.map Doc.shown :=
  Doc.inlineLines_text text style hp

/-- splitting at line breaks and joining again gives the text back -/
theorem C02_split_breaks_join (t : Str) : Doc.joinShown (Doc.splitBreaks t) = t.map Doc.shown :=
  Doc.joinShown_splitBreaks t

example : (Doc.inlineLines "brown\nlazy cat ".toList none).flatMap Doc.childText = "brown\nlazy cat ".toList := by decide +kernel

end Adeu.Props.C02
