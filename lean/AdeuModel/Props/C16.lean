import AdeuModel.Lemmas.Engine
import AdeuModel.Lemmas.Style
import AdeuModel.Lemmas.InlineMd
/-
C16 — inserted text blends in: context formatting inherited, Markdown rendered.
`insRuns text style suppress` are the runs `track_insert` creates for one line; `style` is the run
the engine chose as style source — an original run of the same paragraph adjacent to the
insertion point (`anchor`, `next run` or the last deleted run; see `applyIndexed`).
-/
namespace Adeu.Props.C16
open Adeu Adeu.Doc

/-- Every inserted run carries the font / size / colour / character-style properties of the style
source rather than document defaults. -/
theorem C16_inherits (text : Str) (style : Option Run) (sup : Bool) :
    ∀ c ∈ insRuns text style sup, ∃ r, c = InsChild.run r ∧ r.rest = (style.map (·.rest)).getD [] :=
  insRuns_rest text style sup

/-- The style source of a pure insertion (`_determine_style_source` as `placeInsertion` applies it): the anchor
run, or the run that follows it when the new text ends with a blank — in either case an original run of the
*same paragraph* adjacent to the insertion point (`runsOfNodes p.nodes`: direct runs and runs inside
insertions / deletions / hyperlinks of that paragraph), never a run of another paragraph or a document default.
Together with `C16_inherits` this is the inheritance clause for insertions. -/
theorem C16_style_source_in_paragraph (p : Para) (a : RunRef) (before : Bool) (newText : Str) (r : Run)
    (h : (if before then getRun p.nodes a.loc
          else match nextRun p.nodes a.loc with
            | none => getRun p.nodes a.loc
            | some nr => if endsWithSpace newText then some nr else getRun p.nodes a.loc) = some r) :
    r ∈ runsOfNodes p.nodes :=
  insertion_style_source_in_paragraph p a before newText r h

/-- New text without a well-formed span is inserted literally, character for character, as one run.
"Well-formed span" is `findSpan`: `**x**` with non-empty content that neither starts nor ends with
white space; `_x_` likewise, whose underscores touch no word character or underscore on the outside. -/
theorem C16_literal (t : Str) (style : Option Run) (sup : Bool) (ht : t ≠ []) (h : findSpan t.toArray = none) :
    (insRuns t style sup).map (fun c => match c with | .run r => r.ch | _ => []) = [[.t t]] :=
  insRuns_literal t style sup ht h

/-- Rendering never loses or invents text: the characters of the runs created for one inserted line are a subsequence of
the new text, and every character that is not a `*` or `_` is kept, in order - the only characters `_parse_inline_markdown`
can drop are span delimiters (`findSpan_spec`: a removed pair is `**…**` or `_…_` as the pattern demands). Every new
text, every style source. -/
theorem C16_only_markers_removed (t : Str) (style : Option Run) (sup : Bool) :
    List.Sublist ((insRuns t style sup).flatMap insChildText) t ∧
    ((insRuns t style sup).flatMap insChildText).filter notMarker = t.filter notMarker := by
  rw [insRuns_chars]
  exact inlineSegs_text t

/-- `#` lines become heading-styled paragraphs (`lineParas`), other lines keep the anchor
paragraph's properties. -/
theorem C16_heading_style (level : Nat) : headingStyleId level = "Heading".toList ++ natStr level := rfl

theorem dropWhile_hashes (n : Nat) (r : Str) (hr : r.head? ≠ some '#') :
    (List.replicate n '#' ++ r).dropWhile (· = '#') = r := by
  induction n with
  | zero =>
    cases r with
    | nil => rfl
    | cons c rest =>
      have : c ≠ '#' := fun e => hr (by simp [e])
      simp [List.dropWhile, this]
  | succ k ih => simpa [List.replicate_succ, List.dropWhile] using ih

/-- A line `#…# title` (n ≥ 1 hashes, a blank, then the title) is a heading of level n whose text is the title without the
prefix; `lineParas` gives it the style `Heading n` (C16_heading_style). -/
theorem C16_heading_line (n : Nat) (title : Str) (hn : 0 < n) :
    parseMdStyle (List.replicate n '#' ++ ' ' :: title) = (stripStr Trim.pyIsSpace (' ' :: title), some n) := by
  unfold parseMdStyle
  have hh : (List.replicate n '#' ++ ' ' :: title).head? = some '#' := by
    cases n with
    | zero => omega
    | succ k => simp [List.replicate_succ]
  have hd := dropWhile_hashes n (' ' :: title) (by simp)
  simp only [hh, ↓reduceIte, hd, List.head?_cons, List.length_append, List.length_replicate, List.length_cons]
  have : n + (title.length + 1) - (title.length + 1) = n := by omega
  rw [this]

/-- A line that starts with `#` but has no blank behind the hashes (`#1 priority`, `#hashtag`) is not a heading and keeps
every character. -/
theorem C16_hash_line_kept (text : Str) (h : (text.dropWhile (· = '#')).head? ≠ some ' ') :
    parseMdStyle text = (text, none) := by
  unfold parseMdStyle
  split
  · simp only [h, ↓reduceIte]
  · rfl

example : parseMdStyle "## Scope of work".toList = ("Scope of work".toList, some 2) := by decide
example : parseMdStyle "#1 priority".toList = ("#1 priority".toList, none) := by decide

/-! Non-vacuity / rendering of spans -/
example : inlineSegs "[___] fee".toList = [⟨"[___] fee".toList, false, false⟩] := by decide
example : inlineSegs "snake_case_name".toList = [⟨"snake_case_name".toList, false, false⟩] := by decide
example : inlineSegs "**bold** and _it_".toList =
    [⟨"bold".toList, true, false⟩, ⟨" and ".toList, false, false⟩, ⟨"it".toList, false, true⟩] := by decide

example : (insRuns "pay **all** fees _now_".toList none false).flatMap insChildText = "pay all fees now".toList := by decide

end Adeu.Props.C16
