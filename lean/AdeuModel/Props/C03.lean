import AdeuModel.Lemmas.Mapper
/-
C03 — reader offsets and writer offsets denote the same characters.

`extractText` models `extract_text_from_stream` and `mapperText` the concatenation of the spans of
`DocumentMapper` (after the repairs recorded in known_findings.json); both are applied to the
normalised document, as the code does.
-/
namespace Adeu.Props.C03
open Adeu Adeu.Doc

/-- The text a client reads and the text the engine indexes are the same string — raw and accepted
view, every document (heading prefixes, bold/italic markers, CriticMarkup wrappers, change/comment
metadata and threads, table cell/row separators, empty paragraphs, rows, tables and parts,
headers and footers). -/
theorem C03_text_eq (clean : Bool) (d : Document) :
    mapperText clean (normalize d) = extractText clean (normalize d) :=
  mapperText_eq_extractText clean (normalize d)

/-- Paragraph level: the spans of one paragraph spell the paragraph text the reader produces. -/
theorem C03_paragraph_text_eq (clean : Bool) (cm : CMap) (pp : PPath) (p : Para) :
    spansText (paraSpans clean cm pp p) = paraText clean cm p :=
  paraSpans_text clean cm pp p

/-- Offsets are prefix sums: the span list is a partition of the indexed text. -/
theorem C03_spans_partition (clean : Bool) (d : Document) :
    (buildSpans clean d).flatMap (·.text) = mapperText clean d := rfl

end Adeu.Props.C03
