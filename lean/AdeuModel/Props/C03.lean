import AdeuModel.Lemmas.Mapper
import AdeuModel.Lemmas.ExtractTags
/-
C03 — reader offsets and writer offsets denote the same characters.

`extractText` models `extract_text_from_stream` and `mapperText` the concatenation of the spans of
`DocumentMapper` (after the repairs recorded in known_findings.json); both are applied to the
normalised document, as the code does.
-/
namespace Adeu.Props.C03
open Adeu Adeu.Doc Adeu.Markup

/-- The text a client reads and the text the engine indexes are the same string — raw and accepted
view, every document (heading prefixes, bold/italic markers, CriticMarkup wrappers, change/comment
metadata and threads, table cell/row separators, empty paragraphs, rows, tables and parts,
headers and footers). -/
theorem C03_text_eq (clean : Bool) (d : Document) :
    mapperText clean (normalize d) = extractText clean (normalize d) :=
  mapperText_eq_extractText clean (normalize d)

/-- Paragraph level: the spans of one paragraph spell the paragraph text the reader produces. -/
theorem C03_paragraph_text_eq (clean : Bool) (cm : CMap) (pp : PPath) (p : Para) :
    spansText (paraSpans clean cm pp p) = paraText clean cm p :=
  paraSpans_text clean cm pp p

/-- Offsets are prefix sums: the span list is a partition of the indexed text. -/
theorem C03_spans_partition (clean : Bool) (d : Document) :
    (buildSpans clean d).flatMap (·.text) = mapperText clean d := rfl

/-- Which characters an offset of the indexed text can denote: the text the engine indexes (raw view) is the
rendering of a flat CriticMarkup segment list whose text characters are, in order, the tagged characters of the
document (`docTagged`: every run's formatted segment tagged by its open marks, heading prefixes and separators
tagged plain) - everything else in the indexed text is a delimiter or metadata. Every document, no hypothesis. -/
theorem C03_indexed_text_is_annotated_document (d : Document) :
    ∃ segs : List Seg, mapperText false d = render segs ∧ tagsOf segs = docTagged d := by
  rw [mapperText_eq_extractText]
  exact doc_tagged d

/-- The two indexes of the engine are related like the two views of the reader: the raw index, read with every
annotation accepted, is the accepted-view index the clean-view fallback of the searched path works on (same domain as
C04_document_read_accepted_partial). -/
theorem C03_raw_index_reads_as_accepted_index_partial (d : Document) (h : domDoc d = true) :
    (parse (mapperText false d)).map acceptView = some (mapperText true d) := by
  rw [mapperText_eq_extractText, mapperText_eq_extractText]
  exact (doc_reads d h).parse

end Adeu.Props.C03
