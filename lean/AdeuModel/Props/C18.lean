import AdeuModel.Lemmas.Init
/-
C18 — `adeu init` never loses the user's Claude Desktop configuration.
All statements are about `Adeu.Init.handleInit`, the model of `adeu.cli.handle_init`
(every prior state, both modes — the mode only chooses `entry` —, every crash point).
-/
namespace Adeu.Props.C18
open Adeu Adeu.J Adeu.Init

/-- Whatever the file contained and wherever the command is interrupted (after any number `k` of
file-system operations, the final write counted byte by byte), the complete previous content is in
the configuration file or in the backup. -/
theorem C18_crash_safe (entry : J) (prior : Prior) (k : Nat) (c : Bytes) (hc : prior.raw = some c) :
    (crashAfter entry prior k).cfg = some c ∨ (crashAfter entry prior k).bak = some c :=
  crash_safe entry prior k c hc

/-- On success the file holds `json.dump` of the previous data with the adeu entry set, and the
backup holds the previous bytes. -/
theorem C18_success_json (entry : J) (prior : Prior) (v : J)
    (h : startData prior >>= setAdeu entry = .ok v) :
    (handleInit entry prior).2 = .ok ∧
    (exec (initSt prior) (handleInit entry prior).1).cfg = some (toBytes (dump 0 v)) ∧
    (exec (initSt prior) (handleInit entry prior).1).bak = prior.raw :=
  let ⟨a, b, c, _⟩ := success_state entry prior v h
  ⟨a, b, c⟩

/-- Unexpected shapes (top level or `mcpServers` not an object, undecodable bytes) raise after the
backup and before any write: the configuration file is exactly as it was. -/
theorem C18_failure_untouched (entry : J) (prior : Prior) (e : Outcome)
    (h : startData prior >>= setAdeu entry = .error e) :
    (handleInit entry prior).2 = e ∧
    (exec (initSt prior) (handleInit entry prior).1).cfg = prior.raw :=
  failure_untouched entry prior e h

/-- Only the adeu server entry is added or replaced: every other top-level key keeps its value and
relative order, every other server keeps its value and relative order, and the entry is there. -/
theorem C18_only_adeu_changed (entry : J) (kvs : List (Str × J)) (r : J)
    (h : setAdeu entry (.obj kvs) = .ok r) :
    ∃ kvs' servers', r = .obj kvs' ∧
      otherKeys mcpKey kvs' = otherKeys mcpKey kvs ∧
      (∀ k, k ≠ mcpKey → lookup k kvs' = lookup k kvs) ∧
      lookup mcpKey kvs' = some (.obj servers') ∧
      lookup adeuKey servers' = some entry ∧
      (∀ servers, lookup mcpKey kvs = some (.obj servers) →
        otherKeys adeuKey servers' = otherKeys adeuKey servers ∧
        ∀ k, k ≠ adeuKey → lookup k servers' = lookup k servers) ∧
      (lookup mcpKey kvs = none → servers' = [(adeuKey, entry)]) := by
  simp only [setAdeu] at h
  split at h
  · rename_i hl
    cases h
    refine ⟨_, [(adeuKey, entry)], rfl, otherKeys_append _ _ _, ?_, lookup_append_new _ _ _ hl, ?_, ?_, ?_⟩
    · intro k hk; exact lookup_append_ne _ _ _ _ hk
    · simp [lookup]
    · intro servers hs; rw [hl] at hs; cases hs
    · intro _; rfl
  · rename_i servers hl
    cases h
    refine ⟨_, setKey adeuKey entry servers, rfl, otherKeys_setKey _ _ _, ?_, lookup_setKey_eq _ _ _,
      lookup_setKey_eq _ _ _, ?_, ?_⟩
    · intro k hk; exact lookup_setKey_ne _ _ _ _ hk
    · intro s hs
      rw [hl] at hs
      cases hs
      exact ⟨otherKeys_setKey _ _ _, fun k hk => lookup_setKey_ne _ _ _ _ hk⟩
    · intro hn; rw [hl] at hn; cases hn
  · cases h

/-- Running the command again changes nothing: setting the entry a second time is the identity,
so the second run (which reads back what the first wrote — `json.loads ∘ json.dump = id` is the
monitored contract of Python's json) writes the same bytes. -/
theorem C18_idempotent (entry : J) (v r : J) (h : setAdeu entry v = .ok r) :
    setAdeu entry r = .ok r := by
  cases v with
  | obj kvs =>
    simp only [setAdeu] at h
    split at h
    · rename_i hl
      cases h
      simp only [setAdeu, lookup_append_new _ _ _ hl]
      rw [setKey_append_new _ _ _ _ hl]
      simp [setKey]
    · rename_i servers hl
      cases h
      simp only [setAdeu, lookup_setKey_eq, setKey_idem]
    · cases h
  | _ => simp [setAdeu] at h

theorem C18_second_run_same_bytes (entry : J) (v r : J) (raw' : Bytes) (h : setAdeu entry v = .ok r) :
    (exec (initSt (.value raw' r)) (handleInit entry (.value raw' r)).1).cfg = some (toBytes (dump 0 r)) := by
  have h2 : startData (.value raw' r) >>= setAdeu entry = .ok r := by
    simp only [startData]
    exact C18_idempotent entry v r h
  exact (success_state entry _ r h2).2.1

/-! Non-vacuity -/
def sampleCfg : J := .obj [("theme".toList, .str "dark".toList),
  (mcpKey, .obj [("other".toList, .obj [("command".toList, .str "x".toList)]), (adeuKey, .null)]),
  ("z".toList, .arr [.num "1".toList, .bool true])]

example : ∃ r, setAdeu prodEntry sampleCfg = .ok r := ⟨_, rfl⟩
example : (handleInit prodEntry (.value [1, 2, 3] sampleCfg)).2 = .ok := by decide
example : (handleInit prodEntry (.value [1, 2, 3] (.arr []))).2 = .attributeError := by decide
example : (crashAfter prodEntry (.value [1, 2, 3] sampleCfg) 2).cfg = some [1, 2, 3] := by decide
example : (crashAfter prodEntry (.value [1, 2, 3] sampleCfg) 8).cfg = some [123, 10] ∧
    (crashAfter prodEntry (.value [1, 2, 3] sampleCfg) 8).bak = some [1, 2, 3] := by decide

end Adeu.Props.C18
