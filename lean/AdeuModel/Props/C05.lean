import AdeuModel.Lemmas.Normalize
/-
C05 — opening and saving a document is content-neutral.
`normalize` is the model of `normalize_docx` (what `RedlineEngine.__init__` does to the tree);
python-docx load/save is the identity on the abstract document (checked by the correspondence on
every case: the saved package read back by the independent reader equals `normalize d`, run
boundaries included).
-/
namespace Adeu.Props.C05
open Adeu Adeu.Doc

/-- Same text in the same order, same per-character formatting, same tracked changes with ids,
authors and dates, same comment anchors, same non-text content, same paragraph/table skeleton,
in every story: only run boundaries (and proofing marks) may differ. -/
theorem C05_normalize_canon (d : Document) : canonDoc (normalize d) = canonDoc d :=
  canonDoc_normalize d

/-- Inside one paragraph: merging never moves anything across an intervening element and never
drops an element. -/
theorem C05_paragraph_canon (l : List Node) : canonNodes (coalesce l) = canonNodes l :=
  canonNodes_coalesce l

/-- Run merging only joins immediately adjacent runs with identical formatting and no special
content: a paragraph without such a pair is returned unchanged. -/
theorem C05_merge_adjacent_identical (l : List Node)
    (h : ∀ pre a b rest, l = pre ++ Node.run a :: Node.run b :: rest → mergeable a b = false) :
    coalesce l = l := by
  fun_induction coalesce l with
  | case1 a b rest hm ih =>
    have := h [] a b rest rfl
    simp [hm] at this
  | case2 a b rest hm ih =>
    rw [ih]
    intro pre a' b' rest' he
    exact h (Node.run a :: pre) a' b' rest' (by simp [he])
  | case3 n rest hn ih =>
    rw [ih]
    intro pre a' b' rest' he
    exact h (n :: pre) a' b' rest' (by simp [he])
  | case4 => rfl

/-- Loading twice is the same as loading once (a saved document is stable). -/
theorem C05_idempotent (d : Document) : normalize (normalize d) = normalize d :=
  normalize_idem d

/-! Non-vacuity: two identical runs separated by a tracked insertion are *not* merged, adjacent
identical runs are. -/
def rA : Run := { b := none, i := none, rest := [], ch := [.t "Hello ".toList] }
def rB : Run := { b := none, i := none, rest := [], ch := [.t "world".toList] }
def insBig : Node := .ins ⟨"1".toList, some "A".toList, none⟩ [.run { b := none, i := none, rest := [], ch := [.t "big ".toList] }]

example : coalesce [.run rA, insBig, .run rB] = [.run rA, insBig, .run rB] := by
  simp [coalesce, insBig]
example : coalesce [.run rA, .run rB, insBig] = [.run (mergeRuns rA rB), insBig] := by
  simp [coalesce, insBig, mergeable, runSpecial, runsIdentical, rA, rB, Atom.special]

end Adeu.Props.C05
