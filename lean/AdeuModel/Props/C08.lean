import AdeuModel.Lemmas.Engine
/-
C08 — edit accounting is honest and skipped edits leave no trace.
-/
namespace Adeu.Props.C08
open Adeu Adeu.Doc

/-- applied + skipped equals the number of edits submitted (indexed batches; unconditional). -/
theorem C08_total (s : Sess) (edits : List IEdit) :
    (applyEditsIndexed s edits).2.1 + (applyEditsIndexed s edits).2.2 = edits.length :=
  applyEditsIndexed_total s edits

/-- The only thing a skipped edit may leave behind is a run boundary, and a run boundary is no
content: splitting changes nothing the canonical content sees. -/
theorem C08_skip_leaves_only_splits_core (r : Run) (k : Nat) :
    canonRun (splitRun r k).1 ++ canonRun (splitRun r k).2 = canonRun r :=
  canonRun_splitRun r k

/-- A revision mark created for a run replaces a paragraph child by a `w:del` that contains only
that run: nothing is nested (the deleted run itself carries no mark). -/
theorem C08_no_nesting_core (ns : List Node) (i : Nat) (r : Run) (dRev iRev : Rev) (ch : List InsChild)
    (hi : ns[i]? = some (.run r)) :
    replaceAt ns i dRev iRev ch = ns.take i ++ [.del dRev [r.deleted], .ins iRev ch] ++ ns.drop (i + 1) := by
  simp [replaceAt, hi]

end Adeu.Props.C08
