import AdeuModel.Lemmas.Engine
import AdeuModel.Lemmas.Frame
/-
C08 — edit accounting is honest and skipped edits leave no trace.

`Adeu.Doc.applyEdits` is the model of `RedlineEngine.apply_edits` for mixed batches (edits addressed by
offset first, then searched edits by descending target length with conflict tracking);
`applyHeuristic` models `_apply_single_edit_heuristic`, `applyIndexed` models
`_apply_single_edit_indexed`.  `Sess.frame` is everything observable of a session except run boundaries:
the canonical content stream of every story (text, per-character format, revision marks with id /
author / date, comment anchors, non-text content, paragraph / table / row / cell properties, order),
the four comment lists and the id counters.
-/
namespace Adeu.Props.C08
open Adeu Adeu.Doc

/-- applied + skipped equals the number of edits submitted (indexed batches; unconditional). -/
theorem C08_total (s : Sess) (edits : List IEdit) :
    (applyEditsIndexed s edits).2.1 + (applyEditsIndexed s edits).2.2 = edits.length :=
  applyEditsIndexed_total s edits

/-- applied + skipped equals the number of edits submitted — mixed batches of offset-addressed and
searched edits, any document, any matcher results (unconditional). -/
theorem C08_total_mixed (s : Sess) (edits : List HEdit) :
    (Doc.applyEdits s edits).2.1 + (Doc.applyEdits s edits).2.2 = edits.length :=
  applyEdits_total s edits

/-- An edit whose target is empty is counted as skipped and has no effect at all. -/
theorem C08_skip_empty_target (s : Sess) (occ : List (Nat × Nat)) (e : HEdit) (h : e.target = []) :
    applyHeuristic s occ e = (s, false, none) :=
  applyHeuristic_empty_target s occ e h

/-- An edit whose target cannot be located — it occurs literally (also with quotes normalised) in neither
the raw nor the accepted text *as a client extracts them*, and the non-literal matchers return nothing —
is counted as skipped and has no effect at all. -/
theorem C08_skip_not_found (s : Sess) (occ : List (Nat × Nat)) (e : HEdit) (hcm : s.cmap = commentsMap s.doc)
    (hr : e.fzRaw = none) (hc : e.fzClean = none)
    (h1 : Markup.find e.target (extractText false s.doc) = none)
    (h2 : Markup.find (Markup.replaceSmart e.target) (Markup.replaceSmart (extractText false s.doc)) = none)
    (h3 : Markup.find e.target (extractText true s.doc) = none)
    (h4 : Markup.find (Markup.replaceSmart e.target) (Markup.replaceSmart (extractText true s.doc)) = none) :
    applyHeuristic s occ e = (s, false, none) := by
  rw [← spans_text_eq_extractText s _ hcm] at h1 h2 h3 h4
  exact applyHeuristic_not_found s occ e (locate_absent s e hr hc h1 h2 h3 h4)

/-- Whatever the reason, a searched edit that is reported as skipped (not found, empty, conflicting with an
earlier edit of the batch, lying in deleted text, refused by the indexed step) leaves no trace. -/
theorem C08_skipped_leaves_no_trace (s : Sess) (occ : List (Nat × Nat)) (e : HEdit)
    (h : (applyHeuristic s occ e).2.1 = false) : (applyHeuristic s occ e).1.frame = s.frame :=
  applyHeuristic_skip_frame s occ e h

/-- The same for an edit addressed by offset (raw or accepted view, any operation kind). -/
theorem C08_skipped_indexed_leaves_no_trace (s : Sess) (clean : Bool) (start len : Nat) (newText : Str)
    (comment : Option Str) (op : Option EOp) (h : (applyIndexed s clean start len newText comment op).2 = false) :
    (applyIndexed s clean start len newText comment op).1.frame = s.frame :=
  applyIndexed_skip_frame s clean start len newText comment op h

/-- If every edit of a batch is skipped, the document content is unchanged. -/
theorem C08_all_skipped_unchanged (s : Sess) (edits : List HEdit) (h : (Doc.applyEdits s edits).2.1 = 0) :
    canonDoc (Doc.applyEdits s edits).1.doc = canonDoc s.doc ∧ (Doc.applyEdits s edits).1.doc.comments = s.doc.comments := by
  have hf := applyEdits_none_applied s edits h
  simp only [Sess.frame, Prod.mk.injEq] at hf
  exact ⟨hf.1, hf.2.1⟩

/-- The only thing a skipped edit may leave behind is a run boundary, and a run boundary is no
content: splitting changes nothing the canonical content sees. -/
theorem C08_skip_leaves_only_splits_core (r : Run) (k : Nat) :
    canonRun (splitRun r k).1 ++ canonRun (splitRun r k).2 = canonRun r :=
  canonRun_splitRun r k

/-- A revision mark created for a run replaces a paragraph child by a `w:del` that contains only
that run: nothing is nested (the deleted run itself carries no mark). -/
theorem C08_no_nesting_core (ns : List Node) (i : Nat) (r : Run) (dRev iRev : Rev) (ch : List InsChild)
    (hi : ns[i]? = some (.run r)) :
    replaceAt ns i dRev iRev ch = ns.take i ++ [.del dRev [r.deleted], .ins iRev ch] ++ ns.drop (i + 1) := by
  simp [replaceAt, hi]

/-! Non-vacuity: a one-paragraph document and an edit whose target is absent: the hypotheses of
`C08_skip_not_found` hold, hence those of `C08_skipped_leaves_no_trace` and `C08_all_skipped_unchanged`
(the driver also counts, per run, on how many generated batches these hypotheses held). -/
def sampleDoc : Document :=
  { headers := [], footers := [], titlePg := false, evenOdd := false, comments := [], commentsEx := [], hasExtended := false,
    body := [.para { style := none, ppr := [], nodes := [.run { b := none, i := none, rest := [], ch := [.t "Hello big world".toList] }] }] }

def sampleSess : Sess := { doc := sampleDoc, author := "Q".toList, date := "D".toList, nextRev := 0, nextCom := 1 }

def absentEdit : HEdit := { target := "absent".toList, new := "x".toList }

theorem sample_text (c : Bool) : extractText c sampleSess.doc = "Hello big world".toList := by
  simp only [extractText, docParts, sampleSess, sampleDoc, storyOf, List.find?, containerText, blocksText, List.map, List.filter,
    joinWith, List.nil_append, List.append_nil, Bool.false_eq_true, ↓reduceIte]
  cases c <;> decide +kernel

example : applyHeuristic sampleSess [] absentEdit = (sampleSess, false, none) := by
  apply C08_skip_not_found sampleSess [] absentEdit rfl rfl rfl <;> rw [sample_text] <;> decide +kernel

example : (applyHeuristic sampleSess [] absentEdit).2.1 = false := by
  rw [C08_skip_not_found sampleSess [] absentEdit rfl rfl rfl] <;> (try rw [sample_text]) <;> decide +kernel

end Adeu.Props.C08
