import AdeuModel.Model.Package
/-
C11 — everything outside the edited stories is preserved at package level.
-/
namespace Adeu.Props.C11
open Adeu.Pkg

theorem lookup_none_of_not_mem (upd : List Part) (n : String) (h : ∀ u ∈ upd, u.name ≠ n) : lookup upd n = none := by
  unfold lookup
  rw [List.find?_eq_none]
  intro u hu
  simpa using h u hu

/-- Every part whose name is not one of the rewritten stories / comment parts is in the saved
package exactly as it was (same name, content type, content). -/
theorem C11_untouched_parts (pkg : Package) (stories comments : List Part) (newRels : List Rel) (p : Part)
    (hp : p ∈ pkg.parts) (hn : ∀ u ∈ stories ++ comments, u.name ≠ p.name) :
    p ∈ (save pkg stories comments newRels).parts := by
  unfold save updateParts
  simp only [List.mem_append, List.mem_map]
  left
  exact ⟨p, hp, by rw [lookup_none_of_not_mem _ _ hn]; rfl⟩

/-- No part is lost: every name of the input package is a name of the saved package. -/
theorem C11_no_part_lost (pkg : Package) (stories comments : List Part) (newRels : List Rel) (p : Part)
    (hp : p ∈ pkg.parts) (hwf : ∀ u ∈ stories ++ comments, ∀ n, lookup (stories ++ comments) n = some u → u.name = n) :
    ∃ q ∈ (save pkg stories comments newRels).parts, q.name = p.name := by
  unfold save updateParts
  cases h : lookup (stories ++ comments) p.name with
  | none =>
    exact ⟨p, by simp only [List.mem_append, List.mem_map]; left; exact ⟨p, hp, by rw [h]; rfl⟩, rfl⟩
  | some u =>
    refine ⟨u, ?_, ?_⟩
    · simp only [List.mem_append, List.mem_map]; left; exact ⟨p, hp, by rw [h]; rfl⟩
    · have hu : u ∈ stories ++ comments := List.mem_of_find?_eq_some h
      exact hwf u hu p.name h

theorem lookup_name (upd : List Part) (n : String) (u : Part) (h : lookup upd n = some u) : u.name = n := by
  unfold lookup at h
  have := List.find?_some h
  simpa using this

/-- (the well-formedness premise of `C11_no_part_lost` always holds) -/
theorem C11_no_part_lost' (pkg : Package) (stories comments : List Part) (newRels : List Rel) (p : Part)
    (hp : p ∈ pkg.parts) : ∃ q ∈ (save pkg stories comments newRels).parts, q.name = p.name :=
  C11_no_part_lost pkg stories comments newRels p hp (fun u _ n h => lookup_name _ n u h)

/-- The main document's existing relationships keep their ids, types and targets. -/
theorem C11_rels_kept (pkg : Package) (stories comments : List Part) (newRels : List Rel) (r : Rel)
    (hr : r ∈ pkg.docRels) : r ∈ (save pkg stories comments newRels).docRels := by
  simp [save, hr]

/-- A story that was not rewritten keeps exactly its content. -/
theorem C11_untargeted_story (pkg : Package) (stories comments : List Part) (newRels : List Rel) (p : Part)
    (hp : p ∈ pkg.parts) (hn : ∀ u ∈ stories ++ comments, u.name ≠ p.name) :
    ∃ q ∈ (save pkg stories comments newRels).parts, q.name = p.name ∧ q.content = p.content ∧ q.ctype = p.ctype :=
  ⟨p, C11_untouched_parts pkg stories comments newRels p hp hn, rfl, rfl, rfl⟩

/-- Nothing appears from nowhere: every part of the saved package is an old part, a rewritten story
or a comment part. -/
theorem C11_only_expected_parts (pkg : Package) (stories comments : List Part) (newRels : List Rel) (q : Part)
    (hq : q ∈ (save pkg stories comments newRels).parts) :
    q ∈ pkg.parts ∨ q ∈ stories ∨ q ∈ comments := by
  unfold save updateParts freshParts at hq
  simp only [List.mem_append, List.mem_map, List.mem_filter] at hq
  rcases hq with ⟨p, hp, rfl⟩ | ⟨hq, _⟩
  · cases h : lookup (stories ++ comments) p.name with
    | none => left; simpa [h] using hp
    | some u =>
      have hu : u ∈ stories ++ comments := List.mem_of_find?_eq_some h
      simp only [h, Option.getD_some]
      rw [List.mem_append] at hu
      rcases hu with hu | hu
      · right; left; exact hu
      · right; right; exact hu
  · right; right; exact hq

/-! Non-vacuity -/
def samplePkg : Package :=
  { parts := [⟨"word/document.xml", "main", "D0"⟩, ⟨"word/styles.xml", "styles", "S"⟩, ⟨"word/media/image1.png", "image/png", "IMG"⟩],
    docRels := [⟨"rId1", "styles", "styles.xml", ""⟩, ⟨"rId2", "image", "media/image1.png", ""⟩] }
example : (save samplePkg [⟨"word/document.xml", "main", "D1"⟩] [⟨"word/comments.xml", "comments", "C"⟩]
    [⟨"rId3", "comments", "comments.xml", ""⟩]).parts =
    [⟨"word/document.xml", "main", "D1"⟩, ⟨"word/styles.xml", "styles", "S"⟩, ⟨"word/media/image1.png", "image/png", "IMG"⟩,
     ⟨"word/comments.xml", "comments", "C"⟩] := by decide

end Adeu.Props.C11
