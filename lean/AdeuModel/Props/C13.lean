import AdeuModel.Lemmas.Diff
/-
C13 — computed diffs are exact, non-overlapping edit scripts.

`ds` is the decoded output of diff-match-patch (a parameter).  Its contract — `src ds` is the first
text, `dst ds` the second, entries are concatenations of whole tokens — is monitored by the harness
on every observed call.
-/
namespace Adeu.Props.C13
open Adeu Adeu.Diff

/-- Replacing every target by its new text transforms the first text into the second — for every
diff list (no normal-form hypothesis: consecutive deletions are merged by the loop). -/
theorem C13_apply (ds : DiffList) :
    applyEdits (src ds) (editsOfDiffs ds) = dst ds := by
  have := applyFrom_go ds 0 none (by intro i d h; cases h)
  simpa [applyEdits, editsOfDiffs, base, pend] using this

/-- Edits are in coordinates of the first text, sorted and pairwise non-overlapping. -/
theorem C13_disjoint_sorted (ds : DiffList) : SortedFrom 0 (editsOfDiffs ds) := by
  have := go_sorted ds 0 none (by intro i d h; cases h)
  simpa [editsOfDiffs, base] using this

/-- Each edit's target equals the first text at the edit's position. -/
theorem C13_target_at_index (ds : DiffList) : TargetsAt (src ds) (editsOfDiffs ds) := by
  intro e he
  exact go_targetsAt (src ds) ds 0 none (by intro i d h; cases h) (by simp [base, pend]) e he

/-- Identical texts (diff-match-patch returns only equalities) give no edits. -/
theorem C13_equal_nil (ds : DiffList) (h : ∀ d ∈ ds, d.1 = Op.eq) : editsOfDiffs ds = [] := by
  unfold editsOfDiffs
  generalize 0 = cur
  induction ds generalizing cur with
  | nil => simp [go, flush]
  | cons x ds ih =>
    obtain ⟨o, t⟩ := x
    have ho : o = Op.eq := h (o, t) (by simp)
    subst ho
    simp only [go, flush, List.nil_append]
    exact ih (fun d hd => h d (by simp [hd])) _

/-- The differing part of every edit consists of whole tokens of the two token sequences. -/
theorem C13_token_aligned (tds : TokDiffList) :
    ∀ e ∈ editsOfDiffs (ofTok tds), Aligned (srcTok tds) (dstTok tds) e := by
  intro e he
  have := go_aligned tds 0 none [] [] [] (by intro _; simp [flat]) (by intro i d h; cases h) e he
  simpa using this

/-! The same clauses for the whole pipeline after diff-match-patch (`ds` is its raw decoded output;
`_split_at_separators` runs first): separator splitting preserves both texts. -/
theorem C13_apply_raw (ds : DiffList) : applyEdits (src ds) (editsOfRaw ds) = dst ds := by
  have := C13_apply (splitDiffs ds)
  rwa [splitDiffs_src, splitDiffs_dst] at this

theorem C13_disjoint_sorted_raw (ds : DiffList) : SortedFrom 0 (editsOfRaw ds) :=
  C13_disjoint_sorted (splitDiffs ds)

theorem C13_target_at_index_raw (ds : DiffList) : TargetsAt (src ds) (editsOfRaw ds) := by
  have := C13_target_at_index (splitDiffs ds)
  rwa [splitDiffs_src] at this

theorem C13_equal_nil_raw (ds : DiffList) (h : ∀ d ∈ ds, d.1 = Op.eq) : editsOfRaw ds = [] := by
  have hs : splitDiffs ds = ds := by
    induction ds with
    | nil => rfl
    | cons x ds ih =>
      obtain ⟨o, t⟩ := x
      have ho : o = Op.eq := h (o, t) (by simp)
      subst ho
      have := ih (fun d hd => h d (by simp [hd]))
      simp [splitDiffs, this]
  unfold editsOfRaw
  rw [hs]
  exact C13_equal_nil ds h

/-- the split: 'end.\n\nStart' → 'END.\n\nBEGIN' becomes one change per paragraph -/
example : splitDiffs [(.eq, "The ".toList), (.del, "end.\n\nStart".toList), (.ins, "END.\n\nBEGIN".toList)] =
    [(.eq, "The ".toList), (.del, "end".toList), (.ins, "END".toList), (.eq, ".".toList), (.eq, "\n\n".toList),
     (.del, "Start".toList), (.ins, "BEGIN".toList)] := by decide +kernel

/-! Non-vacuity: a concrete diff list meets the hypotheses and exercises every branch. -/
def sample : DiffList :=
  [(.ins, "New ".toList), (.eq, "Hello big ".toList), (.del, "old ".toList),
   (.ins, "new ".toList), (.eq, "world".toList), (.ins, "!".toList), (.eq, " x ".toList),
   (.del, "go".toList), (.del, "ne".toList)]

example : applyEdits (src sample) (editsOfDiffs sample) = dst sample := by decide +kernel
example : (editsOfDiffs sample).length = 4 := by decide +kernel

/-- The pinned tree (4fd4704) violated the property: `Hello world → Hello big world` produced an
edit whose target is not at its index, and replacing the targets does not give the second text.
(Repaired in /repo by the `fix:` commit recorded in known_findings.json.) -/
def pinnedWitness : DiffList :=
  [(.eq, "Hello ".toList), (.ins, "big ".toList), (.eq, "world".toList)]

theorem C13_pinned_counterexample :
    ¬ TargetsAt (src pinnedWitness) (goPinned (src pinnedWitness) pinnedWitness 0 none) := by
  intro h
  have := h ⟨6, "Hello ".toList, "Hello big ".toList⟩ (by decide)
  revert this
  decide

end Adeu.Props.C13
