import AdeuModel.Lemmas.Markup
import AdeuModel.Lemmas.Script
/-
C14 — the CriticMarkup preview is faithful to the text and to the edits.

`previewStr` is the string the code builds (right-to-left splicing); `previewSegs` is the same
preview as a flat list of segments — flat by construction: blocks are balanced, never nested and
never cut through one another.  The span found by the fuzzy regular expression is a parameter
(`MEdit.fz`); the only hypothesis on it is that it ends inside the text (`FzInBounds`, monitored
on every observed call).  Reading a preview = `rejectView` / `acceptView` of its segments; that the
rendered string reads back as these segments is checked on the real output by the harness' parser
(texts without CriticMarkup delimiters).
-/
namespace Adeu.Props.C14
open Adeu Adeu.Markup

/-- a view of the segment list that is a homomorphism sees the right-to-left splicing of the viewed
markups into the text -/
theorem view_previewSegs (v : List Seg → Str) (hv : ∀ a b, v (a ++ b) = v a ++ v b)
    (hp : ∀ s l, v (Seg.plain s :: l) = s ++ v l) (hnil : v [] = [])
    (text : Str) (edits : List MEdit) (o : Opts) (h : FzInBounds text edits) :
    v (previewSegs text edits o) =
      spliceFold (fun m => v (markupOf text edits o m)) text (keptDesc text edits) := by
  have hc := keptDesc_chain text edits (matches_inBounds text edits h)
  have h1 := segFold_view v hv hp text edits o (keptDesc text edits) text.length []
  have h2 := splice_tail (fun m => v (markupOf text edits o m)) text (keptDesc text edits) text.length []
    hc (Nat.le_refl _)
  unfold previewSegs spliceFold
  simp only [hp]
  rw [hnil] at h1
  simp only [List.take_length, List.append_nil] at h2
  rw [h2, ← h1]

/-- The string the code builds is the rendering of the flat segment list: suggestion blocks are
balanced, never nested, never cut through one another. -/
theorem C14_render_flat (text : Str) (edits : List MEdit) (o : Opts) (h : FzInBounds text edits) :
    previewStr text edits o = render (previewSegs text edits o) := by
  rw [view_previewSegs render render_append (by intro s l; simp [Seg.render]) rfl text edits o h]
  rfl

/-- Reading the preview with every suggestion rejected gives back the input text exactly. -/
theorem C14_reject_lossless (text : Str) (edits : List MEdit) (o : Opts) (h : FzInBounds text edits) :
    rejectView (previewSegs text edits o) = text := by
  rw [view_previewSegs rejectView rejectView_append (by intro s l; simp [Seg.rejected]) rfl text edits o h]
  have hc := keptDesc_chain text edits (matches_inBounds text edits h)
  have : (fun m => rejectView (markupOf text edits o m)) = fun m => slice text m.s m.e := by
    funext m; simp [markupOf, rejectView_buildMarkup]
  rw [this]
  exact spliceFold_id text _ (chain_le _ _ hc)

/-- the new text of the edit a match belongs to -/
def newOf (edits : List MEdit) (m : Match) : Str := (edits[m.idx]?.getD default).new

/-- Reading the preview with every suggestion accepted gives the text in which every kept match is
replaced by the new text of its edit (spliced right to left). -/
theorem C14_accept_splice (text : Str) (edits : List MEdit) (o : Opts) (h : FzInBounds text edits)
    (ho : o.highlightOnly = false) :
    acceptView (previewSegs text edits o) = spliceFold (newOf edits) text (keptDesc text edits) := by
  rw [view_previewSegs acceptView acceptView_append (by intro s l; simp [Seg.accepted]) rfl text edits o h]
  have : (fun m => acceptView (markupOf text edits o m)) = newOf edits := by
    funext m; simp [markupOf, newOf, acceptView_buildMarkup _ _ _ _ _ ho]
  rw [this]

/-- the kept matches as an edit script in the coordinates of the text, ascending -/
def scriptOf (text : Str) (edits : List MEdit) : List Edit :=
  (keptDesc text edits).reverse.map fun m => ⟨m.s, slice text m.s m.e, newOf edits m⟩

theorem slice_length (text : Str) (a b : Nat) (h1 : a ≤ b) (h2 : b ≤ text.length) :
    (slice text a b).length = b - a := by
  simp [slice, List.length_take, List.length_drop]; omega

theorem chain_sorted (ms : List Match) : ∀ (P : Nat), Chain P ms → ∀ (text : Str) (g : Match → Str),
    P ≤ text.length →
    ∀ (tail : List Edit) , (∀ e ∈ tail.head?, P ≤ e.idx) → SortedFrom P tail →
    ∃ base, SortedFrom base (ms.reverse.map (fun m => (⟨m.s, slice text m.s m.e, g m⟩ : Edit)) ++ tail) := by
  induction ms with
  | nil => intro P _ text g _ tail _ hs; exact ⟨P, by simpa using hs⟩
  | cons m ms ih =>
    intro P hc text g hP tail hh hs
    obtain ⟨h1, h2, h3⟩ := hc
    simp only [List.reverse_cons, List.map_append, List.map_cons, List.map_nil, List.append_assoc,
      List.singleton_append]
    apply ih m.s h3 text g (by omega)
    · intro e he; simp at he; subst he; exact Nat.le_refl _
    · refine ⟨Nat.le_refl _, ?_⟩
      have hl := slice_length text m.s m.e (by omega) (by omega)
      simp only [hl]
      have : m.s + (m.e - m.s) = m.e := by omega
      rw [this]
      cases tail with
      | nil => trivial
      | cons t ts =>
        obtain ⟨hs1, hs2⟩ := hs
        have := hh t (by simp)
        exact ⟨by omega, hs2⟩

theorem sortedFrom_zero {b : Nat} {es : List Edit} (h : SortedFrom b es) : SortedFrom 0 es := by
  cases es with
  | nil => trivial
  | cons e es => exact ⟨Nat.zero_le _, h.2⟩

/-- … which is the simultaneous replacement of the kept targets by their new texts (the reading of
"each target replaced by its new text" used by C12/C13). -/
theorem C14_accept_exact (text : Str) (edits : List MEdit) (o : Opts) (h : FzInBounds text edits)
    (ho : o.highlightOnly = false) :
    acceptView (previewSegs text edits o) = applyEdits text (scriptOf text edits) := by
  rw [C14_accept_splice text edits o h ho]
  have hc := keptDesc_chain text edits (matches_inBounds text edits h)
  -- script facts
  obtain ⟨base, hsorted⟩ := chain_sorted _ _ hc text (newOf edits) (Nat.le_refl _) [] (by simp) trivial
  simp only [List.append_nil] at hsorted
  have hrange : InRange text.length (scriptOf text edits) := by
    intro e he
    simp only [scriptOf, List.mem_map, List.mem_reverse] at he
    obtain ⟨m, hm, rfl⟩ := he
    have hb := matches_inBounds text edits h
    have hle := chain_le _ _ hc m hm
    have hme : m.e ≤ text.length := by
      have hperm := List.mergeSort_perm (filterOverlap (matchesFrom text edits 0) []) (fun a b => decide (a.s ≥ b.s))
      have hx1 := hperm.mem_iff.mp hm
      rcases filterOverlap_mem _ _ _ hx1 with h' | h'
      · exact hb m h'
      · simp at h'
    simp only [slice_length text m.s m.e hle hme]
    omega
  rw [← applyDesc_eq_applyEdits text (scriptOf text edits) (sortedFrom_zero hsorted) hrange]
  -- applyDesc over the ascending script = splicing over the descending matches
  unfold applyDesc scriptOf spliceFold
  rw [List.foldr_map, List.foldr_reverse]
  -- both are folds over the kept matches; the steps agree on every in-bounds match
  have hstep : ∀ (ms : List Match) (res : Str), (∀ m ∈ ms, m.s ≤ m.e ∧ m.e ≤ text.length) →
      ms.foldl (fun res m => res.take m.s ++ newOf edits m ++ res.drop m.e) res =
      ms.foldl (fun acc m => replaceOne acc ⟨m.s, slice text m.s m.e, newOf edits m⟩) res := by
    intro ms
    induction ms with
    | nil => intro res _; rfl
    | cons m ms ih =>
      intro res hall
      simp only [List.foldl_cons]
      have hm := hall m (by simp)
      have hl := slice_length text m.s m.e hm.1 hm.2
      have : replaceOne res ⟨m.s, slice text m.s m.e, newOf edits m⟩ = res.take m.s ++ newOf edits m ++ res.drop m.e := by
        simp only [replaceOne, hl]
        congr 2; omega
      rw [this]
      exact ih _ (fun x hx => hall x (by simp [hx]))
  apply hstep
  intro m hm
  refine ⟨chain_le _ _ hc m hm, ?_⟩
  have hperm := List.mergeSort_perm (filterOverlap (matchesFrom text edits 0) []) (fun a b => decide (a.s ≥ b.s))
  have hx1 := hperm.mem_iff.mp hm
  rcases filterOverlap_mem _ _ _ hx1 with h' | h'
  · exact matches_inBounds text edits h m h'
  · simp at h'

/-- Highlight-only mode adds only wrappers: accepted and rejected readings are the text. -/
theorem C14_highlight_only (text : Str) (edits : List MEdit) (o : Opts) (h : FzInBounds text edits)
    (ho : o.highlightOnly = true) :
    acceptView (previewSegs text edits o) = text := by
  rw [view_previewSegs acceptView acceptView_append (by intro s l; simp [Seg.accepted]) rfl text edits o h]
  have hc := keptDesc_chain text edits (matches_inBounds text edits h)
  have : (fun m => acceptView (markupOf text edits o m)) = fun m => slice text m.s m.e := by
    funext m; simp [markupOf, acceptView_buildMarkup_hl _ _ _ _ _ ho]
  rw [this]
  exact spliceFold_id text _ (chain_le _ _ hc)

/-- An edit list in which nothing matches leaves the text as it is. -/
theorem C14_unmatched_no_trace (text : Str) (edits : List MEdit) (o : Opts)
    (h : matchesFrom text edits 0 = []) : previewStr text edits o = text := by
  unfold previewStr keptDesc
  rw [h]
  simp [filterOverlap]

/-- An edit that does not match leaves no trace: appending it changes nothing. -/
theorem C14_unmatched_appended (text : Str) (edits : List MEdit) (ed : MEdit)
    (h : matchesFrom text [ed] edits.length = []) :
    keptDesc text (edits ++ [ed]) = keptDesc text edits := by
  have : ∀ (l : List MEdit) (i : Nat), matchesFrom text (l ++ [ed]) i = matchesFrom text l i ++ matchesFrom text [ed] (i + l.length) := by
    intro l
    induction l with
    | nil => intro i; simp [matchesFrom]
    | cons x l ih =>
      intro i
      have hi : i + 1 + l.length = i + (l.length + 1) := by omega
      simp only [List.cons_append, matchesFrom, ih, List.append_assoc, List.length_cons, hi]
  unfold keptDesc
  rw [this, Nat.zero_add, h, List.append_nil]

theorem segFold_mem (text : Str) (edits : List MEdit) (o : Opts) (ms : List Match) :
    ∀ (P : Nat) (segs : List Seg) (sg : Seg), sg ∈ (ms.foldl (segStep text edits o) (P, segs)).2 →
      sg ∈ segs ∨ (∃ s, sg = Seg.plain s) ∨ ∃ m ∈ ms, sg ∈ markupOf text edits o m := by
  induction ms with
  | nil => intro P segs sg h; left; exact h
  | cons m ms ih =>
    intro P segs sg h
    simp only [List.foldl_cons] at h
    rcases ih _ _ sg h with h | h | ⟨m', hm', h⟩
    · simp only [segStep, List.mem_append, List.mem_cons] at h
      rcases h with h | h | h
      · right; right; exact ⟨m, by simp, h⟩
      · right; left; exact ⟨_, h⟩
      · left; exact h
    · right; left; exact h
    · right; right; exact ⟨m', by simp [hm'], h⟩

/-- Displayed edit indexes are positions in the submitted list: every metadata block of the preview
is the metadata of a kept match `m`, built from the comment of `edits[m.idx]` and (when requested)
`[Edit:m.idx]`, and `edits[m.idx]` is the edit whose target matched at `m`. -/
theorem C14_index_is_position (text : Str) (edits : List MEdit) (o : Opts) (s : Str)
    (hs : Seg.note s ∈ previewSegs text edits o) :
    ∃ m ∈ keptDesc text edits, ∃ ed, edits[m.idx]? = some ed ∧
      findMatch text ed.target ed.fz = some (m.s, m.e) ∧ Seg.note s ∈ metaSegs ed.comment m.idx o := by
  unfold previewSegs at hs
  simp only [List.mem_cons, reduceCtorEq, false_or] at hs
  rcases segFold_mem text edits o _ _ _ _ hs with h | ⟨_, h⟩ | ⟨m, hm, h⟩
  · simp at h
  · cases h
  · refine ⟨m, hm, ?_⟩
    have hperm := List.mergeSort_perm (filterOverlap (matchesFrom text edits 0) []) (fun a b => decide (a.s ≥ b.s))
    have hx1 := hperm.mem_iff.mp hm
    rcases filterOverlap_mem _ _ _ hx1 with h' | h'
    · obtain ⟨_, _, ed, he, hf⟩ := matchesFrom_spec text edits 0 m h'
      simp only [Nat.sub_zero] at he
      refine ⟨ed, he, hf, ?_⟩
      unfold markupOf buildMarkup at h
      simp only [he, Option.getD_some, List.mem_append, List.mem_cons, reduceCtorEq, List.not_mem_nil,
        or_false, false_or] at h
      rcases h with h | h
      · exfalso
        split at h
        · simp at h
        · simp only [List.mem_append] at h
          rcases h with h | h <;> (split at h <;> simp at h)
      · exact h
    · simp at h'

theorem metaSegs_index (c : Str) (i : Nat) (o : Opts) (ho : o.includeIndex = true) :
    ∃ pre, metaSegs c i o = [Seg.note (pre ++ "[Edit:".toList ++ (toString i).toList ++ "]".toList)] := by
  unfold metaSegs
  by_cases hc : c.isEmpty = true
  · exact ⟨[], by simp [hc, ho, List.intercalate]⟩
  · exact ⟨c ++ " ".toList, by simp [hc, ho, List.intercalate]⟩

/-- Reading is defined on the string: the rendering of a flat, brace-free segment list parses back to
that list (adjacent plain pieces joined), so both readings of the string are the readings of the
segments. -/
theorem C14_render_parse (segs : List Seg) (hb : BraceFree segs) :
    (parse (render segs)).map rejectView = some (rejectView segs) ∧
    (parse (render segs)).map acceptView = some (acceptView segs) := by
  rw [parse_render segs hb]
  simp [rejectView_normAcc, acceptView_normAcc]

/-- The string the code returns, read with every suggestion rejected, is the input text. -/
theorem C14_read_rejected (text : Str) (edits : List MEdit) (o : Opts) (h : FzInBounds text edits)
    (hb : BraceFree (previewSegs text edits o)) :
    (parse (previewStr text edits o)).map rejectView = some text := by
  rw [C14_render_flat text edits o h, (C14_render_parse _ hb).1, C14_reject_lossless text edits o h]

/-- … and read with every suggestion accepted it is the text with every kept match replaced. -/
theorem C14_read_accepted (text : Str) (edits : List MEdit) (o : Opts) (h : FzInBounds text edits)
    (ho : o.highlightOnly = false) (hb : BraceFree (previewSegs text edits o)) :
    (parse (previewStr text edits o)).map acceptView = some (applyEdits text (scriptOf text edits)) := by
  rw [C14_render_flat text edits o h, (C14_render_parse _ hb).2, C14_accept_exact text edits o h ho]

/-! Non-vacuity -/
example : parse "a_{--b c--}{++Q++}{>>why [Edit:1]<<} x".toList =
    some [.plain "a_".toList, .del "b c".toList, .ins "Q".toList, .note "why [Edit:1]".toList, .plain " x".toList] := by
  decide

def sampleEdits : List MEdit :=
  [⟨"__".toList, "X".toList, [], some (2, 2)⟩, ⟨"b c".toList, "Q".toList, "why".toList, none⟩,
   ⟨"**Term**".toList, "**Name**".toList, [], none⟩]
example : FzInBounds "a_b c **Term** x".toList sampleEdits := by
  intro ed he a b hab
  simp [sampleEdits] at he
  rcases he with rfl | rfl | rfl <;> simp at hab
  obtain ⟨rfl, rfl⟩ := hab; decide

end Adeu.Props.C14
