import AdeuModel.Lemmas.Extract
import AdeuModel.Lemmas.Mapper
/-
C04 — the text projection is complete, ordered and correctly annotated.
Statements about `Adeu.Doc.extractText`, the model of `extract_text_from_stream`.
-/
namespace Adeu.Props.C04
open Adeu Adeu.Doc

/-- Accepted view of a paragraph = the formatted segment of every run that is not inside a
deletion, each exactly once and in document order; no annotation, no deleted text, nothing else. -/
theorem C04_clean_complete (cm : CMap) (p : Para) : paraText true cm p = cleanSegs [] (items p) :=
  paraText_clean cm p

/-- Document order: headers, then body, then footers; blocks separated by blank lines, tables
row-major with ` | ` between cells; empty tables and empty parts contribute nothing. (The layout
is the definition; what is proved is that it is the same layout the engine indexes.) -/
theorem C04_layout_is_indexed_layout (clean : Bool) (d : Document) :
    extractText clean d = mapperText clean d :=
  (mapperText_eq_extractText clean d).symm

/-- Bold/italic markers never enclose a line break. -/
theorem C04_marker_no_newline (r : Run) (h : runText r ≠ [])
    (hm : ¬ ((runMarkers r).1.isEmpty ∧ (runMarkers r).2.isEmpty)) :
    splitNl (applyFormatting (runText r) (runMarkers r).1 (runMarkers r).2) =
      (splitNl (runText r)).map fun p => if p.isEmpty then [] else (runMarkers r).1 ++ p ++ (runMarkers r).2 := by
  apply applyFormatting_lines _ _ _ hm _ _ h
  · unfold runMarkers; by_cases hb : onOffTrue r.b <;> by_cases hi : onOffTrue r.i <;> simp [hb, hi]
  · unfold runMarkers; by_cases hb : onOffTrue r.b <;> by_cases hi : onOffTrue r.i <;> simp [hb, hi]

/-! Non-vacuity: a paragraph with a deletion, an insertion and a bold run with a line break. -/
def samplePara : Para :=
  { style := none, ppr := [], nodes :=
    [.run { b := none, i := none, rest := [], ch := [.t "keep ".toList] },
     .del ⟨"1".toList, some "A".toList, none⟩ [{ b := none, i := none, rest := [], ch := [.dt "old ".toList] }],
     .ins ⟨"2".toList, some "A".toList, none⟩ [.run { b := none, i := none, rest := [], ch := [.t "new ".toList] }],
     .run { b := some [], i := none, rest := [], ch := [.t "a".toList, .br, .t "b".toList] }] }

example : paraText true [] samplePara = "keep new **a**\n**b**".toList := by decide
example : paraText false [] samplePara =
    "keep {--old --}{++new ++}{>>[Chg:1] A\n[Chg:2] A<<}**a**\n**b**".toList := by decide

end Adeu.Props.C04
