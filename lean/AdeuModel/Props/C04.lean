import AdeuModel.Lemmas.Extract
import AdeuModel.Lemmas.Mapper
import AdeuModel.Lemmas.ExtractDoc
import AdeuModel.Lemmas.MetaIds
import AdeuModel.Lemmas.ExtractTags
import AdeuModel.Lemmas.MetaComments
import AdeuModel.Lemmas.ExtractAll
/-
C04 — the text projection is complete, ordered and correctly annotated.
Statements about `Adeu.Doc.extractText`, the model of `extract_text_from_stream`.
-/
namespace Adeu.Props.C04
open Adeu Adeu.Doc Adeu.Markup

/-- Accepted view of a paragraph = the formatted segment of every run that is not inside a
deletion, each exactly once and in document order; no annotation, no deleted text, nothing else. -/
theorem C04_clean_complete (cm : CMap) (p : Para) : paraText true cm p = cleanSegs [] (items p) :=
  paraText_clean cm p

/-- Document order: headers, then body, then footers; blocks separated by blank lines, tables
row-major with ` | ` between cells; empty tables and empty parts contribute nothing. (The layout
is the definition; what is proved is that it is the same layout the engine indexes.) -/
theorem C04_layout_is_indexed_layout (clean : Bool) (d : Document) :
    extractText clean d = mapperText clean d :=
  (mapperText_eq_extractText clean d).symm

/-- Bold/italic markers never enclose a line break. -/
theorem C04_marker_no_newline (r : Run) (h : runText r ≠ [])
    (hm : ¬ ((runMarkers r).1.isEmpty ∧ (runMarkers r).2.isEmpty)) :
    splitNl (applyFormatting (runText r) (runMarkers r).1 (runMarkers r).2) =
      (splitNl (runText r)).map fun p => if p.isEmpty then [] else (runMarkers r).1 ++ p ++ (runMarkers r).2 := by
  apply applyFormatting_lines _ _ _ hm _ _ h
  · unfold runMarkers; by_cases hb : onOffTrue r.b <;> by_cases hi : onOffTrue r.i <;> simp [hb, hi]
  · unfold runMarkers; by_cases hb : onOffTrue r.b <;> by_cases hi : onOffTrue r.i <;> simp [hb, hi]


/-! ### the raw view: annotation, flat balanced delimiters, reading it with everything accepted -/

/-- Balanced and never nested: the raw view of a paragraph is the rendering of a *flat* list of
segments (plain text, `{--…--}`, `{++…++}`, `{==…==}`, `{>>…<<}`), each closed before the next opens. -/
theorem C04_raw_is_flat_markup (cm : CMap) (p : Para) : paraText false cm p = render (rawSegs cm p) :=
  paraText_raw_render cm p

/-- Annotation: every character of every run appears exactly once, in document order, in the kind of
block that the revision marks and comment ranges open at its run call for (deleted, else inserted, else
commented, else bare); metadata blocks carry no text character of the document. -/
theorem C04_raw_annotation (cm : CMap) (p : Para) : tagsOf (rawSegs cm p) = taggedSpec [] [] [] (items p) :=
  rawSegs_tagged cm p

/-- Identifier listing: the metadata blocks of the raw view are, in order, the renderings of groups of
snapshots (empty renderings leave no block) … -/
theorem C04_meta_blocks_are_rendered_groups (cm : CMap) (p : Para) :
    notesOf (rawSegs cm p) = blocksOf cm (metaGroups cm p) :=
  rawSegs_notes cm p

/-- … and the groups hold, taken together and in document order, exactly one snapshot of the open
insertions, deletions and comment ranges per run that carries text: a tracked change or a comment range
gets its identifier listed only through a text-carrying run it encloses, and every such run lists all of
its open marks (the renderer `metaBlock` writes `[Chg:id]` for every insertion / deletion of a snapshot and
the thread of every comment id of it, each signature once per block). -/
theorem C04_listed_marks_are_those_open_at_text (cm : CMap) (p : Para) :
    (metaGroups cm p).flatten = snapSpec [] [] [] (items p) :=
  metaGroups_flatten cm p

/-- Inside one metadata block: its change lines are `chgLines` of its snapshots (whatever comments they carry),
one line per listed id, no id twice, and an id is listed iff that insertion / deletion is open in one of the
block's snapshots.  With the two theorems above: a tracked change is listed in the raw view of a paragraph
iff it encloses a run that carries text. -/
theorem C04_block_lists_open_changes_once (cm : CMap) (states : List Snap) :
    metaBlock cm states = joinWith ['\n'] (chgLines states ++ (states.foldl (metaStep cm) ([], [], [])).2.1) ∧
    (chgIds states).Nodup ∧ (chgLines states).length = (chgIds states).length ∧
    ∀ id, id ∈ chgIds states ↔ ∃ s ∈ states, id ∈ (s.ins ++ s.del).map (·.1) :=
  ⟨metaBlock_chgLines cm states, chgIds_spec states⟩

/-- … and its comment lines (the second part of the same `joinWith`) hold a line `[Com:id] …` for every comment that one of
the block's snapshots has open and that the comment map knows; replies follow their parent (C10_reply_shown_with_thread).
With C04_listed_marks_are_those_open_at_text: a comment anchored on a text-carrying run is listed behind that text. -/
theorem C04_block_lists_anchored_comments (cm : CMap) (states : List Snap) (s : Snap) (hs : s ∈ states) (cid : Str)
    (hc : cid ∈ s.comments) (d : CData) (hd : cmGet cm cid = some d) :
    ∃ l ∈ (states.foldl (metaStep cm) ([], [], [])).2.1, comHead cid <+: l :=
  metaBlock_lists_comment cm states s hs cid hc d hd

/-- Resolving every annotation of the raw view as 'accept' gives the accepted view, character for character. -/
theorem C04_accept_raw_eq_clean (cm : CMap) (p : Para) : acceptView (rawSegs cm p) = paraText true cm p :=
  rawSegs_accept cm p

/-- The same through the CriticMarkup reader on the *string* the client receives (texts, authors and
comment texts without braces). -/
theorem C04_paragraph_read_accepted (cm : CMap) (p : Para) (hb : braceFreeB (rawSegs cm p) = true) :
    (parse (paraText false cm p)).map acceptView = some (paraText true cm p) :=
  (para_reads cm p hb).parse

/-- Whole documents: headers, body with nested and merged tables, footers.  `domDoc` = brace-free texts
and no container (table, story) that is empty in the accepted view but not in the raw view - the domain
of the open finding F-deleted-only-container, see the counterexample below. -/
theorem C04_document_read_accepted_partial (d : Document) (h : domDoc d = true) :
    (parse (extractText false d)).map acceptView = some (extractText true d) :=
  (doc_reads d h).parse

theorem C04_document_flat_balanced_partial (d : Document) (h : domDoc d = true) :
    ∃ segs : List Seg, extractText false d = render segs ∧ BraceFree segs ∧
      parse (extractText false d) = some (normAcc [] segs) := by
  obtain ⟨segs, r, _, b⟩ := doc_reads d h
  exact ⟨segs, r, b, by rw [r, parse_render segs b]⟩

/-- Annotation for whole documents (headers, body with nested and merged tables, footers), no hypothesis: the raw view
is the rendering of a flat segment list whose text characters - tagged deleted / inserted / commented / bare by the
block they stand in - are exactly `docTagged d`: every run's formatted segment tagged by the marks open at that run,
heading prefixes and separators bare, containers that the raw view drops as empty dropped; in document order, once. -/
theorem C04_document_annotation (d : Document) :
    ∃ segs : List Seg, extractText false d = render segs ∧ tagsOf segs = docTagged d :=
  doc_tagged d

/-- Completeness of the accepted view for whole documents (domain `domDoc`): it is, character for character and in document
order, the characters of the document's tagged text (C04_document_annotation) that are not tagged deleted - every run's
formatted segment outside deletions, heading prefixes, separators - no annotation, nothing else, nothing twice. (One segment
list carries the raw string, its accepted reading and its tags: `doc_reads3`.) -/
theorem C04_accepted_view_is_undeleted_characters_partial (d : Document) (h : domDoc d = true) :
    extractText true d = keptChars (docTagged d) :=
  extractText_clean_eq_kept d h

/-! Non-vacuity: a paragraph with a deletion, an insertion and a bold run with a line break. -/
def samplePara : Para :=
  { style := none, ppr := [], nodes :=
    [.run { b := none, i := none, rest := [], ch := [.t "keep ".toList] },
     .del ⟨"1".toList, some "A".toList, none⟩ [{ b := none, i := none, rest := [], ch := [.dt "old ".toList] }],
     .ins ⟨"2".toList, some "A".toList, none⟩ [.run { b := none, i := none, rest := [], ch := [.t "new ".toList] }],
     .run { b := some [], i := none, rest := [], ch := [.t "a".toList, .br, .t "b".toList] }] }

example : paraText true [] samplePara = "keep new **a**\n**b**".toList := by decide
example : paraText false [] samplePara =
    "keep {--old --}{++new ++}{>>[Chg:1] A\n[Chg:2] A<<}**a**\n**b**".toList := by decide

example : rawSegs [] samplePara =
    [.plain "keep ".toList, .del "old ".toList, .ins "new ".toList, .note "[Chg:1] A\n[Chg:2] A".toList,
     .plain "**a**\n**b**".toList] := by decide
example : braceFreeB (rawSegs [] samplePara) = true := by decide
example : chgIds [⟨[], [("1".toList, some "A".toList)], []⟩, ⟨[("2".toList, some "A".toList)], [("1".toList, some "A".toList)], []⟩] =
    ["1".toList, "2".toList] := by decide
example : metaGroups [] samplePara =
    [[⟨[], [], []⟩], [⟨[], [("1".toList, some "A".toList)], []⟩, ⟨[("2".toList, some "A".toList)], [], []⟩],
     [⟨[], [], []⟩]] := by decide

def sampleDoc : Document :=
  { headers := [], footers := [], titlePg := false, evenOdd := false, comments := [], commentsEx := [], hasExtended := false,
    body := [.para samplePara,
      .table [] [] [.mk [] [.mk [] 1 .none [.para samplePara], .mk [] 1 .none [.para { style := none, ppr := [], nodes := [] }]]]] }

/-- a table whose only text is tracked-deleted: shown in the raw view, dropped from the accepted view -/
def deletedOnlyDoc : Document :=
  { sampleDoc with body := [.para samplePara,
      .table [] [] [.mk [] [.mk [] 1 .none [.para { style := none, ppr := [], nodes :=
        [.del ⟨"3".toList, some "A".toList, none⟩ [{ b := none, i := none, rest := [], ch := [.dt "gone".toList] }]] }]]]] }

/-- non-vacuity of the document-level theorem: a document with a redlined paragraph and a table meets `domDoc` -/
theorem sampleDoc_in_domain : domDoc sampleDoc = true := by
  simp only [domDoc, docParts, sampleDoc, storyOf, List.find?, domBlocks, domRows, domCells, tableText, rowsCellTexts,
    cellsTexts, blocksText, containerText, List.map, List.all, List.nil_append, List.append_nil, Bool.false_eq_true, ↓reduceIte]
  decide +kernel

example : (parse (extractText false sampleDoc)).map acceptView = some (extractText true sampleDoc) :=
  C04_document_read_accepted_partial sampleDoc sampleDoc_in_domain

theorem deletedOnlyDoc_texts :
    extractText false deletedOnlyDoc =
      "keep {--old --}{++new ++}{>>[Chg:1] A\n[Chg:2] A<<}**a**\n**b**\n\n{--gone--}{>>[Chg:3] A<<}".toList ∧
    extractText true deletedOnlyDoc = "keep new **a**\n**b**".toList := by
  simp only [extractText, docParts, deletedOnlyDoc, sampleDoc, storyOf, List.find?, tableText, rowsCellTexts,
    cellsTexts, blocksText, containerText, List.map, List.filter, List.nil_append, List.append_nil, Bool.false_eq_true, ↓reduceIte]
  decide +kernel

/-- The hypothesis of the document-level theorem is needed: for a table whose only text is tracked-deleted
the raw view read with everything accepted keeps the separator of the (now empty) table, the accepted
view drops the table.  Same witness as the open finding F-deleted-only-container, replayed on the
implementation by this check. -/
theorem C04_deleted_only_container_counterexample :
    domDoc deletedOnlyDoc = false ∧
    (parse (extractText false deletedOnlyDoc)).map acceptView ≠ some (extractText true deletedOnlyDoc) := by
  refine ⟨?_, ?_⟩
  · simp only [domDoc, docParts, deletedOnlyDoc, sampleDoc, storyOf, List.find?, domBlocks, domRows, domCells, tableText,
      rowsCellTexts, cellsTexts, blocksText, containerText, List.map, List.all, List.nil_append, List.append_nil,
      Bool.false_eq_true, ↓reduceIte]
    decide +kernel
  · rw [deletedOnlyDoc_texts.1, deletedOnlyDoc_texts.2]
    decide +kernel

/-! ### the other two open findings, as theorems about the model (witnesses replayed on the implementation) -/

def plainRun (s : String) : Run := { b := none, i := none, rest := [], ch := [.t s.toList] }
def cellP (vm : VM) (s : String) : Cell :=
  .mk [] 1 vm [.para { style := none, ppr := [], nodes := if s.isEmpty then [] else [.run (plainRun s)] }]

/-- a 2 x 2 table whose first column is vertically merged: the merged cell holds "Alpha" once -/
def vmergeDoc : Document :=
  { headers := [], footers := [], titlePg := false, evenOdd := false, comments := [], commentsEx := [], hasExtended := false,
    body := [.table [] [] [.mk [] [cellP .restart "Alpha", cellP .none "Beta"], .mk [] [cellP .continue_ "", cellP .none "Gamma"]]] }

/-- F-vmerge-dup: "every visible character exactly once" fails for vertically merged cells - the reader (like
python-docx's `row.cells`) presents the merged cell once per spanned row. -/
theorem C04_vmerge_duplicate_counterexample : extractText true vmergeDoc = "Alpha | Beta\nAlpha | Gamma".toList := by
  simp only [extractText, docParts, vmergeDoc, cellP, plainRun, storyOf, List.find?, tableText, rowsCellTexts, cellsTexts,
    blocksText, containerText, List.map, List.filter, List.nil_append, List.append_nil, Bool.false_eq_true, ↓reduceIte]
  decide +kernel

/-- a comment range that encloses no run (a point comment), with its reference run -/
def pointPara : Para :=
  { style := none, ppr := [], nodes := [.run (plainRun "Before "), .cs "5".toList, .ce "5".toList,
      .run { b := none, i := none, rest := [], ch := [.cref "5".toList] }, .run (plainRun "after")] }

/-- F-point-comment: the comment is anchored in the text but neither shown nor listed - no text-carrying run lies inside
its range, and identifiers are listed only through such runs (C04_listed_marks_are_those_open_at_text). -/
theorem C04_point_comment_counterexample :
    paraText false [("5".toList, ⟨"Q7".toList, "note".toList, [], false, none⟩)] pointPara = "Before after".toList := by
  decide

end Adeu.Props.C04
