import AdeuModel.Lemmas.LGrow
import AdeuModel.Lemmas.RevIds
import AdeuModel.Lemmas.ComGrow
import AdeuModel.Lemmas.Engine
import AdeuModel.Lemmas.Attr
import AdeuModel.Lemmas.AttrHistory
/-
C09 — saved output is structurally valid revision and comment markup (model-level clauses).
-/
namespace Adeu.Props.C09
open Adeu Adeu.Doc

/-- Every mark created by a session carries that session's author and date, and the next id. -/
theorem C09_mark_attribution (s : Sess) :
    (s.newRev).2.author = some s.author ∧ (s.newRev).2.date = some s.date ∧
    (s.newRev).2.id = natStr (s.nextRev + 1) ∧ (s.newRev).1.nextRev = s.nextRev + 1 :=
  newRev_attrib s

/-- New revision ids exceed every numeric id present in the main part and in the reachable header / footer parts at load: ids stay unique
within the main part whenever the input's were. -/
theorem C09_ids_fresh (d : Document) (author date : Str) (bs : List Block) (n : Node) (rev : Rev) (k : Nat)
    (hbs : bs ∈ docParts (normalize d)) (hn : n ∈ allNodesBlocks bs) (hform : revOf n = some rev)
    (hk : strNat? rev.id = some k) :
    k < (Sess.open d author date).nextRev + 1 :=
  newRev_fresh d author date bs n rev k hbs hn hform hk

/-- Whole batches (offset-addressed and searched edits mixed; applied, skipped, matched fuzzily, inside or across
another reviewer's insertion — the non-literal matcher is an arbitrary parameter): **every** revision mark of
**every** story of the result is either one of the marks the document had when the session was opened — same id,
same author, same date: nobody else's change is re-attributed or re-dated — or a mark of this session: it carries
the session's author and the session's date, and its id was handed out after the ids scanned when the session was
opened (`revsDoc`: the `w:ins` / `w:del` that are paragraph children, read off the canonical content stream). -/
theorem C09_marks_attributed (s : Sess) (edits : List HEdit) :
    ∀ x ∈ revsDoc (Doc.applyEdits s edits).1.doc,
      x ∈ revsDoc s.doc ∨
      (x.author = some s.author ∧ x.date = some s.date ∧
        ∃ k, s.nextRev < k ∧ k ≤ (Doc.applyEdits s edits).1.nextRev ∧ x.id = natStr k) :=
  (RevOk_applyEdits s edits).revs

/-- The ids of the marks a session adds lie above every numeric revision id the opened document carries in the
stories the engine reaches (main part, reachable headers / footers): a mark created by the session never shares its
id with a mark that was already there — ids stay unique across what was there and what is new. -/
theorem C09_new_ids_above_old (d : Document) (author date : Str) (edits : List HEdit) (x : Rev)
    (hx : x ∈ revsDoc (Doc.applyEdits (Sess.open d author date) edits).1.doc)
    (hnew : x ∉ revsDoc (Sess.open d author date).doc) :
    ∃ k, x.id = natStr k ∧ x.author = some author ∧ x.date = some date ∧
      ∀ bs ∈ docParts (normalize d), ∀ n ∈ allNodesBlocks bs, ∀ rev k', revOf n = some rev → strNat? rev.id = some k' → k' < k :=
  new_ids_above_old d author date edits x hx hnew

/-- A new comment is listed exactly once in the comments part and once in each auxiliary part. -/
theorem C09_comment_parts (s : Sess) (text : Str) (parent : Option Str) :
    (s.addComment text parent).1.doc.comments.length = s.doc.comments.length + 1 ∧
    (s.addComment text parent).1.doc.commentsEx.length = s.doc.commentsEx.length + 1 ∧
    (s.addComment text parent).1.doc.commentsIds.length = s.doc.commentsIds.length + 1 ∧
    (s.addComment text parent).1.doc.commentsCex.length = s.doc.commentsCex.length + 1 := by
  have h := addComment_spec s text parent
  simp only at h
  refine ⟨by rw [h.1]; simp, h.2.2.2.2.2.2.1, h.2.2.2.2.2.2.2.1, h.2.2.2.2.2.2.2.2⟩

/-- Deleted-text elements are produced only inside the `w:del` a deletion creates. -/
theorem C09_deltext_only_in_del (r : Run) (rev : Rev) :
    deleteRunNodes [.run r] ⟨0, none⟩ rev = [.del rev [r.deleted]] := by
  simp [deleteRunNodes, replaceRun]

/-- The id of a mark a run adds differs from the id of **every** mark the opened document carries in the stories
the engine reaches - numeric or not: the new id is a decimal numeral above every numeral found at load, and a numeral
reads back as its number. -/
theorem C09_new_ids_differ_from_old (d : Document) (author date : Str) (edits : List HEdit) (x : Rev)
    (hx : x ∈ revsDoc (Doc.applyEdits (Sess.open d author date) edits).1.doc)
    (hnew : x ∉ revsDoc (Sess.open d author date).doc) :
    ∀ bs ∈ docParts (normalize d), ∀ n ∈ allNodesBlocks bs, ∀ rev, revOf n = some rev → rev.id ≠ x.id :=
  new_ids_differ_from_old d author date edits x hx hnew

/-- The comments part keeps pairwise distinct ids (one `w:comment` per id) after any batch. -/
theorem C09_comment_ids_stay_unique (d : Document) (author date : Str) (edits : List HEdit)
    (hn : ((normalize d).comments.map (·.id)).Nodup) :
    ((Doc.applyEdits (Sess.open d author date) edits).1.doc.comments.map (·.id)).Nodup :=
  comment_ids_stay_unique d author date edits hn

example : strNat? (natStr 41) = some 41 := strNat?_natStr 41

/-- **The comment parts stay linked.**  If in the opened document entry `i` of comments.xml, commentsExtended,
commentsIds and commentsExtensible belong together (paragraph id of the comment's last paragraph = id of the extended
entry = key of the ids entry; durable id of the ids entry = key of the extensible entry), then so they do after any
batch: every comment a run adds brings exactly one entry in each part, with matching ids, at the same position. -/
theorem C09_comment_parts_stay_linked (d : Document) (author date : Str) (edits : List HEdit) (h : DocLinked d) :
    DocLinked (Doc.applyEdits (Sess.open d author date) edits).1.doc :=
  comment_parts_stay_linked d author date edits h

example : DocLinked { (default : Document) with
    comments := [{ id := "1".toList, author := none, date := none, initials := none,
                   paras := [{ paraId := some "AA".toList, text := [] }], legacyParent := none, doneAttr := none }],
    commentsEx := [{ paraId := some "AA".toList, parent := none, done := none }],
    commentsIds := [("AA".toList, "D1".toList)], commentsCex := [("D1".toList, "NOW".toList)] } := by
  simp [DocLinked, linked4]

end Adeu.Props.C09
