import AdeuModel.Lemmas.Review
import AdeuModel.Lemmas.ReviewDoc
import AdeuModel.Lemmas.QuietPara
/-
C06 — accept and reject act exactly on the addressed change.
`acceptN` / `rejectN` are what `_accept_change` / `_reject_change` do to one paragraph child; the
document-level functions map them over every paragraph of the main part (`mapNodesBlocks`).
-/
namespace Adeu.Props.C06
open Adeu Adeu.Doc

/-- An accepted insertion becomes ordinary content, an accepted deletion disappears. -/
theorem C06_accept_effect (rev : Rev) (ch : List InsChild) (runs : List Run) :
    acceptN rev.id (.ins rev ch) = ch.map InsChild.toNode ∧ acceptN rev.id (.del rev runs) = [] := by
  simp [acceptN]

/-- A rejected insertion disappears, a rejected deletion becomes ordinary runs again (same run
properties, `w:delText` back to `w:t`). -/
theorem C06_reject_effect (rev : Rev) (ch : List InsChild) (runs : List Run) :
    rejectN rev.id (.ins rev ch) = [] ∧ rejectN rev.id (.del rev runs) = runs.map (fun r => .run r.undelete) := by
  simp [rejectN]

/-- Every other change, comment anchor and run is untouched and stays in place. -/
theorem C06_isolation (acc : Bool) (id : Str) (n : Node) (h : hasRevN id n = false) : actN acc id n = [n] :=
  actN_other acc id n h

/-- Actions on distinct ids commute — all four accept/reject combinations, every paragraph. -/
theorem C06_commute (a b : Bool) (i j : Str) (hij : i ≠ j) (ns : List Node) :
    (ns.flatMap (actN a i)).flatMap (actN b j) = (ns.flatMap (actN b j)).flatMap (actN a i) :=
  actNodes_comm a b i j hij ns

/-- An action on an unknown id changes nothing (and is reported as skipped: `hasRev` is false). -/
theorem C06_unknown_skipped (acc : Bool) (id : Str) (ns : List Node) (h : ∀ n ∈ ns, hasRevN id n = false) :
    ns.flatMap (actN acc id) = ns :=
  actN_flatMap_unknown acc id ns h

/-- An id that was resolved is gone: a second action addressed to it changes nothing. -/
theorem C06_resolved_once (acc acc' : Bool) (id : Str) (ns : List Node) :
    (∀ m ∈ ns.flatMap (actN acc id), hasRevN id m = false) ∧
    (ns.flatMap (actN acc id)).flatMap (actN acc' id) = ns.flatMap (actN acc id) :=
  ⟨actNodes_clears acc id ns, actNodes_idem acc acc' id ns⟩

/-- applied + skipped equals the number of actions. -/
theorem C06_counts (s : Sess) (acts : List Action) :
    (s.applyActions acts).2.1 + (s.applyActions acts).2.2 = acts.length :=
  applyActions_total s acts

/-- Accepting any change leaves the accepted-view text as it is; so does accept-all, after which no
revision mark is left. Hence accepting every id, accept-all and the accepted view agree on text. -/
theorem C06_accept_each_eq_acceptAll (ns : List Node) (ids : List Str) :
    acceptedChars (ids.foldl (fun l id => l.flatMap (acceptN id)) ns) = acceptedChars ns ∧
    acceptedChars (ns.flatMap acceptAllN) = acceptedChars ns ∧
    (∀ m ∈ ns.flatMap acceptAllN, isRevN m = false) := by
  refine ⟨?_, acceptedChars_acceptAllN ns, acceptAllN_noRev ns⟩
  induction ids generalizing ns with
  | nil => rfl
  | cons id rest ih =>
    simp only [List.foldl_cons]
    rw [ih, acceptedChars_accept]

/-! ### the same at document level: the whole main story, tables and nested tables included -/

/-- Actions on distinct ids commute on the whole story (all four accept / reject combinations). -/
theorem C06_commute_doc (a b : Bool) (i j : Str) (hij : i ≠ j) (body : List Block) :
    (actChange b j (actChange a i body).1).1 = (actChange a i (actChange b j body).1).1 :=
  actChange_comm a b i j hij body

/-- An action on an id that no change of the story carries (unknown, or already resolved) is reported as
skipped and the story is exactly as before. -/
theorem C06_unknown_skipped_doc (acc : Bool) (id : Str) (body : List Block) (h : hasRev id body = false) :
    actChange acc id body = (body, false) :=
  actChange_unknown acc id body h

/-- An action only touches paragraph children: paragraph properties, tables, rows, cells and other blocks of
the story are untouched. -/
theorem C06_skeleton_untouched_doc (acc : Bool) (id : Str) (body : List Block) :
    skel (actChange acc id body).1 = skel body :=
  actChange_skel acc id body

/-! Non-vacuity -/
def sampleNodes : List Node :=
  [.run { b := none, i := none, rest := [], ch := [.t "a ".toList] },
   .del ⟨"1".toList, none, none⟩ [{ b := none, i := none, rest := [], ch := [.dt "old".toList] }],
   .ins ⟨"2".toList, none, none⟩ [.run { b := none, i := none, rest := [], ch := [.t "new".toList] }]]

example : (sampleNodes.flatMap (acceptN "1".toList)).length = 2 := by decide
example : acceptedChars (sampleNodes.flatMap (rejectN "2".toList)) = "a ".toList := by decide

/-- 'Accept all' gives the accepted view and leaves nothing behind to show: a paragraph as `accept_all_revisions`
leaves it (insertions unwrapped, deletions dropped, comment ranges and references stripped) reads the same in the raw and
in the accepted view - no wrapper, no metadata block - whatever the paragraph held before. -/
theorem C06_accept_all_raw_view_is_accepted_view (cm : CMap) (p : Para) :
    paraText false cm { p with nodes := (p.nodes.flatMap acceptAllN).flatMap stripCommentN } =
      paraText true cm { p with nodes := (p.nodes.flatMap acceptAllN).flatMap stripCommentN } :=
  paraText_acceptAll cm p

/-- The same for the whole main story (paragraphs, nested tables) of the session after `accept_all_revisions`. -/
theorem C06_accept_all_story_reads_the_same (cm : CMap) (s : Sess) :
    containerText false cm s.acceptAllRevisions.doc.body = containerText true cm s.acceptAllRevisions.doc.body :=
  containerText_acceptAll cm s.doc.body

/-- … and so does any paragraph in which every change has been resolved one by one (its content opens no insertion,
deletion or comment range any more). -/
theorem C06_resolved_paragraph_reads_the_same (cm : CMap) (p : Para) (h : ∀ n ∈ p.nodes, quietNode n = true) :
    paraText false cm p = paraText true cm p :=
  paraText_quiet cm p (itemsFrom_quiet _ _ _ h)

example : paraText false [] { style := none, ppr := [], nodes := ([.run { b := none, i := none, rest := [], ch := [.t "keep ".toList] },
      .del ⟨"1".toList, some "A".toList, none⟩ [{ b := none, i := none, rest := [], ch := [.dt "old ".toList] }],
      .ins ⟨"2".toList, some "A".toList, none⟩ [.run { b := none, i := none, rest := [], ch := [.t "new".toList] }]].flatMap acceptAllN).flatMap stripCommentN } =
    "keep new".toList := by decide

end Adeu.Props.C06
