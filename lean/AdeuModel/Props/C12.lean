import AdeuModel.Lemmas.Script
import AdeuModel.Lemmas.Engine
import AdeuModel.Props.C13
/-
C12 — applying the diff of a rewritten text reproduces that text.

Text level (proved here, every pair of texts / every raw diff list `ds` of diff-match-patch): the
script computed by `generate_edits_from_text` (separator splitting + the loop), applied one edit at
a time from the right — the order in which the engine applies indexed edits — turns the first text
into the second; the engine model processes a computed script in exactly that order and its overlap
guard never fires on it.

Document level (`_partial`): that one indexed edit changes exactly the addressed characters of the
accepted view is not a theorem; it is covered by the whole-document correspondence of the engine
model with the real engine and by the oracle of this check.
-/
namespace Adeu.Props.C12
open Adeu Adeu.Diff Adeu.Doc

/-- One-at-a-time application from the right equals simultaneous replacement, for every sorted,
non-overlapping, in-range script (insertions at one offset keep their order). -/
theorem C12_reverse_application (s : Str) (es : List Edit) (hs : SortedFrom 0 es)
    (hr : InRange s.length es) : applyDesc s es = applyEdits s es :=
  applyDesc_eq_applyEdits s es hs hr

/-- The computed script, applied the way the engine applies it, gives the second text. -/
theorem C12_text_roundtrip_partial (ds : DiffList) : applyDesc (src ds) (editsOfRaw ds) = dst ds := by
  have hr : InRange (src ds).length (editsOfRaw ds) := by
    have := editsOfDiffs_inRange (splitDiffs ds)
    rwa [splitDiffs_src] at this
  rw [applyDesc_eq_applyEdits _ _ (Adeu.Props.C13.C13_disjoint_sorted_raw ds) hr]
  exact Adeu.Props.C13.C13_apply_raw ds

def toI (e : Edit) (note : Option Str) : IEdit := { index := e.idx, target := e.target, new := e.new, comment := note }

/-- The engine model's processing order for a computed script (reverse, then stable descending
sort) is the script read from the right. -/
theorem C12_order (es : List Edit) (base : Nat) (hs : SortedFrom base es) (note : Option Str) :
    ((es.map (toI · note)).reverse.mergeSort fun a b => decide (a.index ≥ b.index)) =
      (es.map (toI · note)).reverse := by
  apply List.mergeSort_of_pairwise
  rw [List.pairwise_reverse, List.pairwise_map]
  have := sortedFrom_pairwise es base hs
  exact this.imp (by intro a b h; simpa [toI] using h)

/-- The overlap guard of `apply_edits` (`a < oe ∧ b > os` against the ranges applied before, i.e.
those to the right) never fires on a computed script: no computed edit is skipped as overlapping. -/
theorem C12_guard_silent (ds : DiffList) (pre post : List Edit) (e : Edit)
    (h : editsOfRaw ds = pre ++ e :: post) :
    ∀ e' ∈ post, ¬ (e.idx < e'.idx + e'.target.length ∧ e.idx + e.target.length > e'.idx) :=
  sorted_guard_silent _ 0 (Adeu.Props.C13.C13_disjoint_sorted_raw ds) pre post e h

/-- accounting: applied + skipped = number of computed edits -/
theorem C12_accounting (s : Sess) (edits : List IEdit) :
    (applyEditsIndexed s edits).2.1 + (applyEditsIndexed s edits).2.2 = edits.length :=
  applyEditsIndexed_total s edits

/-! Non-vacuity: two insertions at one offset and a replacement. -/
def sampleScript : List Edit := [⟨2, [], "X".toList⟩, ⟨2, [], "Y".toList⟩, ⟨2, "c".toList, "Z".toList⟩]
example : SortedFrom 0 sampleScript ∧ InRange 4 sampleScript := by
  refine ⟨by simp [SortedFrom, sampleScript], ?_⟩
  intro e he; simp [sampleScript] at he; rcases he with rfl | rfl | rfl <;> simp
example : applyDesc "abcd".toList sampleScript = "abXYZd".toList := by decide

end Adeu.Props.C12
