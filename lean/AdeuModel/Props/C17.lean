import AdeuModel.Model.Tools
/-
C17 — tool front-ends are safe: errors are reported, files are never clobbered.

`run r fs` is one call of a tool / command with a failure of internal step `r.fault` (for every
position, `none` = no failure).  The theorems quantify over every request, every file system and
every fault position; the only hypothesis is that the temporary name of the save protocol is not an
existing file.
-/
namespace Adeu.Props.C17
open Adeu.Tools

theorem write_remove_fresh (fs : FS) (tmp : Path) (c : String) (h : fs tmp = none) :
    (fs.write tmp c).remove tmp = fs := by
  funext q
  unfold FS.write FS.remove
  by_cases hq : q = tmp
  · simp [hq, h]
  · simp [hq]

theorem save_error_unchanged (fs : FS) (out tmp : Path) (data : String) (fault : Option Nat) (base : Nat)
    (h : fs tmp = none) (he : (save fs out tmp data fault base).1 = .error) :
    (save fs out tmp data fault base).2 = fs := by
  unfold save at *
  split
  · rfl
  · split
    · exact write_remove_fresh fs tmp "" h
    · split
      · exact write_remove_fresh fs tmp data h
      · rename_i h1 h2 h3
        simp [h1, h2, h3] at he

/-- When a call reports an error — whichever internal step failed, whatever was wrong with the
input — the file system is exactly as it was: no output created or altered, no temporary file left. -/
theorem C17_error_no_fs_change (r : Req) (fs : FS) (h : fs r.tmp = none) (he : (run r fs).1 = .error) :
    (run r fs).2 = fs := by
  unfold run at *
  split
  · rfl
  · split
    · rfl
    · split
      · rfl
      · split
        · rfl
        · split
          · rfl
          · split
            · rename_i h1 h2 h3 h4 h5 h6
              simp [h1, h2, h3, h4, h5, h6] at he
            · rename_i h1 h2 h3 h4 h5 h6
              simp only [h1, h2, h3, h4, h5, h6] at he
              exact save_error_unchanged fs _ _ _ _ _ h (by simpa using he)

/-- every failing step is reported: with a fault at any step the call actually reaches, the outcome
is an error -/
theorem C17_fault_reported (r : Req) (fs : FS) (k : Nat) (hf : r.fault = some k)
    (hk : k ≤ r.nCompute + (if r.tool.writes then 3 else 0)) : (run r fs).1 = .error := by
  unfold run
  split
  · rfl
  · split
    · rfl
    · split
      · rfl
      · split
        · rfl
        · split
          · rfl
          · rename_i h1 h2 h3 h4 h5
            have hk1 : ¬ (1 ≤ k ∧ k ≤ r.nCompute) := by simpa [hf, inCompute] using h5
            have hk0 : k ≠ 0 := by intro h0; apply h3; rw [hf, h0]
            split
            · rename_i hw
              have : r.tool.writes = false := by simpa using hw
              simp [this] at hk
              omega
            · rename_i hw
              have hw' : r.tool.writes = true := by simpa using hw
              simp only [hw', ↓reduceIte] at hk
              unfold save
              rw [hf]
              have : k = r.nCompute + 1 ∨ k = r.nCompute + 1 + 1 ∨ k = r.nCompute + 1 + 2 := by omega
              rcases this with h | h | h
              · simp [h]
              · simp [h]
              · simp [h]

theorem run_ok_save (r : Req) (fs : FS) (hw : r.tool.writes = true) (hok : (run r fs).1 = .ok) :
    run r fs = save fs (outPath r) r.tmp r.result r.fault (r.nCompute + 1) := by
  unfold run at hok ⊢
  by_cases c1 : (r.tool.needsAuthor && !r.authorOk) = true
  · rw [if_pos c1] at hok; cases hok
  rw [if_neg c1] at hok ⊢
  by_cases c2 : (decide (r.srcState = .missing) || decide (fs r.src.str = none)) = true
  · rw [if_pos c2] at hok; cases hok
  rw [if_neg c2] at hok ⊢
  by_cases c3 : r.fault = some 0
  · rw [if_pos c3] at hok; cases hok
  rw [if_neg c3] at hok ⊢
  by_cases c4 : r.srcState ≠ .valid
  · rw [if_pos c4] at hok; cases hok
  rw [if_neg c4] at hok ⊢
  by_cases c5 : inCompute r.fault r.nCompute = true
  · rw [if_pos c5] at hok; cases hok
  rw [if_neg c5] at hok ⊢
  have c6 : ¬ ((!r.tool.writes) = true) := by simp [hw]
  rw [if_neg c6]

theorem save_ok (fs : FS) (out tmp : Path) (data : String) (fault : Option Nat) (base : Nat)
    (he : (save fs out tmp data fault base).1 = .ok) :
    (save fs out tmp data fault base).2 = ((fs.write tmp data).remove tmp).write out data := by
  unfold save at he ⊢
  by_cases c1 : fault = some base
  · rw [if_pos c1] at he; cases he
  rw [if_neg c1] at he ⊢
  by_cases c2 : fault = some (base + 1)
  · rw [if_pos c2] at he; cases he
  rw [if_neg c2] at he ⊢
  by_cases c3 : fault = some (base + 2)
  · rw [if_pos c3] at he; cases he
  rw [if_neg c3]

/-- A successful call of a writing tool changes exactly one path, the designated output, which then
holds what the library produced; every other path — the source included, unless it is itself the
output — is untouched. -/
theorem C17_ok_writes_only_output (r : Req) (fs : FS) (h : fs r.tmp = none) (hw : r.tool.writes = true)
    (hok : (run r fs).1 = .ok) :
    (run r fs).2 (outPath r) = some r.result ∧ ∀ p, p ≠ outPath r → (run r fs).2 p = fs p := by
  have hrun := run_ok_save r fs hw hok
  rw [hrun] at hok ⊢
  rw [save_ok _ _ _ _ _ _ hok]
  constructor
  · simp [FS.write]
  · intro p hp
    by_cases hq : p = r.tmp
    · subst hq; simp [FS.write, FS.remove, hp, h]
    · simp [FS.write, FS.remove, hp, hq]

/-- tools that only read never change anything -/
theorem C17_readers_change_nothing (r : Req) (fs : FS) (hw : r.tool.writes = false) : (run r fs).2 = fs := by
  unfold run
  repeat' split
  all_goals first | rfl | (simp_all)

/-- default output names follow the documented suffixes; the in-place convention applies exactly to
sources that already carry the suffix -/
theorem C17_default_names (p : P) :
    defaultOut .acceptAll p = p.dir ++ "/" ++ p.stem ++ "_clean" ++ p.suffix ∧
    defaultOut .markupMd p = p.dir ++ "/" ++ p.stem ++ "_markup.md" ∧
    (p.stem.endsWith "_redlined" = true → defaultOut .applyEdits p = p.str ∧ defaultOut .cliApply p = p.str) ∧
    (p.stem.endsWith "_redlined" = false → defaultOut .applyEdits p = p.dir ++ "/" ++ p.stem ++ "_redlined" ++ p.suffix ∧
        defaultOut .cliApply p = p.dir ++ "/" ++ p.stem ++ "_redlined.docx") ∧
    (p.stem.endsWith "_reviewed" = true → defaultOut .reviewActions p = p.str) ∧
    (p.stem.endsWith "_reviewed" = false → defaultOut .reviewActions p = p.dir ++ "/" ++ p.stem ++ "_reviewed" ++ p.suffix) := by
  refine ⟨rfl, rfl, ?_, ?_, ?_, ?_⟩ <;> intro h <;> simp [defaultOut, h]

/-- the source is modified only when it is the designated output -/
theorem C17_source_untouched (r : Req) (fs : FS) (h : fs r.tmp = none)
    (hs : outPath r ≠ r.src.str) : (run r fs).2 r.src.str = fs r.src.str := by
  cases hw : r.tool.writes
  · rw [C17_readers_change_nothing r fs hw]
  · cases ho : (run r fs).1
    · exact (C17_ok_writes_only_output r fs h hw ho).2 _ (fun e => hs e.symm)
    · rw [C17_error_no_fs_change r fs h ho]

/-- CLI exit status: non-zero exactly when the call failed or (apply) something was skipped -/
theorem C17_cli_exit (r : Req) (fs : FS) :
    exitCode r fs ≠ 0 ↔ ((run r fs).1 = .error ∨ (r.tool = .cliApply ∧ r.skipped > 0)) := by
  unfold exitCode
  cases h : (run r fs).1
  · simp only [reduceCtorEq, false_or]
    by_cases hc : r.tool = .cliApply <;> simp [hc]
    omega
  · simp

/-- The pinned tree (4fd4704) violated the property: a failed write reported an error and left a
truncated output behind.  (Repaired in /repo by the `fix:` commits recorded in known_findings.json.) -/
theorem C17_pinned_counterexample :
    ∃ (fs : FS) (out : Path), (savePinned fs out "DATA" (some 1) 0).1 = .error ∧
      (savePinned fs out "DATA" (some 1) 0).2 out ≠ fs out := by
  refine ⟨fun _ => none, "out.docx", by simp [savePinned], ?_⟩
  simp [savePinned, FS.write]

/-! Non-vacuity: a request that reaches the save phase, with a fresh temporary name -/
def sampleReq : Req := { tool := .applyEdits, src := ⟨"D", "doc", ".docx"⟩, srcState := .valid, out := none, authorOk := true,
                         nCompute := 3, skipped := 0, result := "R", fault := some 5, tmp := "D/.tmp" }
def sampleFS : FS := fun p => if p = "D/doc.docx" then some "SRC" else none
example : sampleFS sampleReq.tmp = none ∧ (run sampleReq sampleFS).1 = .error := by decide
example : (run { sampleReq with fault := none } sampleFS).2 "D/doc_redlined.docx" = some "R" := by decide

end Adeu.Props.C17
