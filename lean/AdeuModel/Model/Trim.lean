import AdeuModel.Model.Str
/-
Model of `adeu.redline.engine._trim_common_context(target, new_val) -> (prefix_len, suffix_len)`,
line by line.  `sp` is Python's `str.isspace` (a parameter: the theorems hold for every predicate;
the driver instantiates it with a table that the harness compares with Python's on every run).
-/
namespace Adeu.Trim
open Adeu

def commonPrefixLen : Str → Str → Nat
  | a :: as, b :: bs => if a = b then commonPrefixLen as bs + 1 else 0
  | _, _ => 0

/-- `while p > 0 and not t[p-1].isspace() and not t[p].isspace(): p -= 1` -/
def backWord (sp : Char → Bool) (t : Str) : Nat → Nat
  | 0 => 0
  | p + 1 =>
    match t[p]?, t[p + 1]? with
    | some a, some b => if !sp a && !sp b then backWord sp t p else p + 1
    | _, _ => p + 1

/-- `while p > 0 and t[p-1] != "\n": p -= 1` -/
def lineStart (t : Str) : Nat → Nat
  | 0 => 0
  | p + 1 => if t[p]? = some '\n' then p + 1 else lineStart t p

/-- The `#` safety scan: `temp` walks left from `p`; a `#` before any newline sends the prefix back
to the start of that line. -/
def hashScan (t : Str) (p : Nat) : Nat → Nat
  | 0 => p
  | temp + 1 =>
    if t[temp]? = some '#' then lineStart t temp
    else if t[temp]? = some '\n' then p
    else hashScan t p temp

/-- `str.count("**")` (non-overlapping, left to right). -/
def countBold : Str → Nat
  | '*' :: '*' :: r => countBold r + 1
  | _ :: r => countBold r
  | [] => 0

/-- `str.count("_")` -/
def countUs (s : Str) : Nat := s.count '_'

def unbalanced (s : Str) : Bool := countBold s % 2 != 0 || countUs s % 2 != 0

/-- the cut at offset `k` lies between the two asterisks of a `**` -/
def splitsStar (t : Str) (k : Nat) : Bool := decide (k > 0) && t[k - 1]? = some '*' && t[k]? = some '*'

/-- prefix marker balance loop -/
def balPrefix (t : Str) : Nat → Nat
  | 0 => 0
  | p + 1 => if unbalanced (t.take (p + 1)) || splitsStar t (p + 1) then balPrefix t p else p + 1

/-- suffix marker balance loop -/
def balSuffix (t : Str) : Nat → Nat
  | 0 => 0
  | s + 1 =>
    if unbalanced (t.drop (t.length - (s + 1))) || splitsStar t (t.length - (s + 1)) then balSuffix t s else s + 1

/-- `x.isspace()` for a non-empty string -/
def allSpace (sp : Char → Bool) (s : Str) : Bool := !s.isEmpty && s.all sp

def startsWith (s m : Str) : Bool := s.take m.length == m
def endsWith (s m : Str) : Bool := m.length ≤ s.length && s.drop (s.length - m.length) == m

def absorb (t n : Str) (m : Str) (ps : Nat × Nat) : Nat × Nat :=
  let (p, s) := ps
  let tr := (t.take (t.length - s)).drop p
  let nr := (n.take (n.length - s)).drop p
  if startsWith tr m && startsWith nr m && endsWith tr m && endsWith nr m
      && decide (tr.length > 2 * m.length) && decide (nr.length > 2 * m.length)
  then (p + m.length, s + m.length) else (p, s)

def prefixPhase (sp : Char → Bool) (t n : Str) : Nat :=
  let p0 := commonPrefixLen t n
  let p1 := if p0 < t.length ∧ p0 < n.length then backWord sp t p0 else p0
  let p2 := hashScan t p1 p1
  balPrefix t p2

def suffixPhase (sp : Char → Bool) (t n : Str) (p : Nat) : Nat :=
  let lim := min (t.length - p) (n.length - p)
  let s0 := min (commonPrefixLen t.reverse n.reverse) lim
  let s1 := if 0 < s0 ∧ s0 < t.length then backWord sp t.reverse s0 else s0
  let s2 := balSuffix t s1
  if 0 < s2 ∧ allSpace sp (t.drop (t.length - s2)) then 0 else s2

def trim (sp : Char → Bool) (t n : Str) : Nat × Nat :=
  if t.isEmpty || n.isEmpty then (0, 0)
  else
    let p := prefixPhase sp t n
    let s := suffixPhase sp t n p
    absorb t n ['_'] (absorb t n ['*', '*'] (p, s))

/-- Python's `str.isspace` (Unicode 15 White_Space + the four separators 0x1c–0x1f). -/
def pyIsSpace (c : Char) : Bool :=
  let n := c.toNat
  (9 ≤ n && n ≤ 13) || (28 ≤ n && n ≤ 32) || n == 0x85 || n == 0xa0 || n == 0x1680 ||
  (0x2000 ≤ n && n ≤ 0x200a) || n == 0x2028 || n == 0x2029 || n == 0x202f || n == 0x205f || n == 0x3000

end Adeu.Trim
