import AdeuModel.Model.Mapper
import AdeuModel.Model.Review
/-
Layer E — the patching engine on indexed edits: `RedlineEngine._apply_single_edit_indexed` with
`DocumentMapper._resolve_runs_at_range`, `_split_run_at_index`, `get_insertion_point`,
`get_insertion_anchor`, `track_delete_run`, `track_insert`, `_attach_comment` and
`CommentsManager.add_comment`, and `apply_edits` for indexed batches.

External parameters: the session timestamp (opaque `date`), random paragraph / durable ids
(placeholders `NEWn`, compared up to renaming).
-/
namespace Adeu.Doc
open Adeu

/-! ### addressing paragraphs -/

def natStr (n : Nat) : Str := (toString n).toList

def strNat? (s : Str) : Option Nat := if allDigits s then some (strToNat s) else none

mutual
  /-- replace the paragraph at `path` (block index, then row/cell/block triples) by `f p` followed
  by extra blocks (new paragraphs of a multi-line insertion) -/
  def modBlocks (f : Para → Para × List Block) : List Nat → List Block → List Block
    | [], bs => bs
    | _, [] => []
    | 0 :: rest, b :: bs =>
      match b, rest with
      | .para p, [] => let (p', extra) := f p; .para p' :: extra ++ bs
      | .table pr g rows, ri :: ci :: more => .table pr g (modRows f ri ci more rows) :: bs
      | b, _ => b :: bs
    | (k + 1) :: rest, b :: bs => b :: modBlocks f (k :: rest) bs
  def modRows (f : Para → Para × List Block) : Nat → Nat → List Nat → List Row → List Row
    | _, _, _, [] => []
    | 0, ci, more, .mk pr cells :: rs => .mk pr (modCells f ci more cells) :: rs
    | k + 1, ci, more, r :: rs => r :: modRows f k ci more rs
  def modCells (f : Para → Para × List Block) : Nat → List Nat → List Cell → List Cell
    | _, _, [] => []
    | 0, more, .mk pr s v bs :: cs => .mk pr s v (modBlocks f more bs) :: cs
    | k + 1, more, c :: cs => c :: modCells f k more cs
end

mutual
  def getParaBlocks : List Nat → List Block → Option Para
    | [], _ => none
    | _, [] => none
    | 0 :: rest, b :: _ =>
      match b, rest with
      | .para p, [] => some p
      | .table _ _ rows, ri :: ci :: more => getParaRows ri ci more rows
      | _, _ => none
    | (k + 1) :: rest, _ :: bs => getParaBlocks (k :: rest) bs
  def getParaRows : Nat → Nat → List Nat → List Row → Option Para
    | _, _, _, [] => none
    | 0, ci, more, .mk _ cells :: _ => getParaCells ci more cells
    | k + 1, ci, more, _ :: rs => getParaRows k ci more rs
  def getParaCells : Nat → List Nat → List Cell → Option Para
    | _, _, [] => none
    | 0, more, .mk _ _ _ bs :: _ => getParaBlocks more bs
    | k + 1, more, _ :: cs => getParaCells k more cs
end

/-- which story a part index of `docParts` denotes -/
inductive PartSel | header (ty : Str) | body | footer (ty : Str)
deriving Repr, DecidableEq

def partSels (d : Document) : List PartSel :=
  let pick (ss : List Story) (mk : Str → PartSel) :=
    (if (ss.any (·.ty = "default".toList)) then [mk "default".toList] else []) ++
    (if d.titlePg && ss.any (·.ty = "first".toList) then [mk "first".toList] else []) ++
    (if d.evenOdd && ss.any (·.ty = "even".toList) then [mk "even".toList] else [])
  pick d.headers .header ++ [.body] ++ pick d.footers .footer

def modFirstStory (ty : Str) (g : List Block → List Block) : List Story → List Story
  | [] => []
  | s :: rest => if s.ty = ty then { s with blocks := g s.blocks } :: rest else s :: modFirstStory ty g rest

def modPart (d : Document) (pi : Nat) (g : List Block → List Block) : Document :=
  match (partSels d)[pi]? with
  | some .body => { d with body := g d.body }
  | some (.header ty) => { d with headers := modFirstStory ty g d.headers }
  | some (.footer ty) => { d with footers := modFirstStory ty g d.footers }
  | none => d

def getPara (d : Document) (pp : PPath) : Option Para :=
  match pp with
  | [] => none
  | pi :: rest => ((docParts d)[pi]?).bind (getParaBlocks rest)

def modPara (d : Document) (pp : PPath) (f : Para → Para × List Block) : Document :=
  match pp with
  | [] => d
  | pi :: rest => modPart d pi (modBlocks f rest)

/-! ### runs inside a paragraph -/

def getRun (ns : List Node) (loc : Loc) : Option Run :=
  match ns[loc.node]?, loc.sub with
  | some (.run r), none => some r
  | some (.ins _ ch), some k => match ch[k]? with | some (.run r) => some r | _ => none
  | some (.del _ runs), some k => runs[k]?
  | _, _ => none

/-- width of a run child in the units of `get_run_text` -/
def Atom.width : Atom → Nat
  | .t s | .dt s => s.length
  | .tab | .br | .cr | .brT _ => 1
  | _ => 0

/-- `_split_run_at_index`, distribution of the children -/
def splitAtoms : List Atom → Nat → Nat → List Atom × List Atom
  | [], _, _ => ([], [])
  | a :: rest, consumed, k =>
    let w := a.width
    let (l, r) := splitAtoms rest (consumed + w) k
    if consumed ≥ k then (l, a :: r)
    else if consumed + w ≤ k then (a :: l, r)
    else
      let cut := k - consumed
      match a with
      | .t s => (.t (s.take cut) :: l, .t (s.drop cut) :: r)
      | .dt s => (.dt (s.take cut) :: l, .dt (s.drop cut) :: r)
      | a => (a :: l, r)

/-- adjacent text nodes of one kind are joined -/
def joinText : List Atom → List Atom
  | .t a :: .t b :: rest => joinText (.t (a ++ b) :: rest)
  | .dt a :: .dt b :: rest => joinText (.dt (a ++ b) :: rest)
  | a :: rest => a :: joinText rest
  | [] => []
termination_by l => l.length

def splitRun (r : Run) (k : Nat) : Run × Run :=
  let (l, rr) := splitAtoms r.ch 0 k
  ({ r with ch := joinText l }, { r with ch := joinText rr })

/-- replace the run at `loc` by a list of paragraph children (top level) or ins/del children -/
def replaceRun (ns : List Node) (loc : Loc) (top : Run → List Node) (inIns : Run → List InsChild)
    (inDel : Run → List Run) : List Node :=
  match loc.sub with
  | none =>
    (ns.zipIdx.flatMap fun (n, i) => if i = loc.node then (match n with | .run r => top r | n => [n]) else [n])
  | some k =>
    ns.zipIdx.map fun (n, i) =>
      if i = loc.node then
        match n with
        | .ins rev ch => .ins rev (ch.zipIdx.flatMap fun (c, j) =>
            if j = k then (match c with | .run r => inIns r | c => [c]) else [c])
        | .del rev runs => .del rev (runs.zipIdx.flatMap fun (r, j) => if j = k then inDel r else [r])
        | n => n
      else n

/-- split the run at `loc` at run offset `k`; returns the new child list and the locations of the
left and right halves -/
def splitRunAt (ns : List Node) (loc : Loc) (k : Nat) : List Node × Loc × Loc :=
  let ns' := replaceRun ns loc
    (fun r => let (a, b) := splitRun r k; [.run a, .run b])
    (fun r => let (a, b) := splitRun r k; [.run a, .run b])
    (fun r => let (a, b) := splitRun r k; [a, b])
  match loc.sub with
  | none => (ns', loc, { loc with node := loc.node + 1 })
  | some j => (ns', loc, { loc with sub := some (j + 1) })

/-- a location of the same paragraph after a split at `at_` (which inserted one sibling behind it) -/
def shiftLoc (at_ : Loc) (l : Loc) : Loc :=
  match at_.sub, l.sub with
  | none, _ => if l.node > at_.node then { l with node := l.node + 1 } else l
  | some j, some k => if l.node = at_.node && k > j then { l with sub := some (k + 1) } else l
  | some _, none => l

/-! ### spans with offsets -/

structure OSpan where
  start : Nat
  stop : Nat
  sp : Span
deriving Repr, Inhabited

def withOffsets (ss : List Span) : List OSpan :=
  (ss.foldl (fun (acc : Nat × List OSpan) s => (acc.1 + s.text.length, acc.2 ++ [⟨acc.1, acc.1 + s.text.length, s⟩])) (0, [])).2

def OSpan.real (o : OSpan) : Bool := o.sp.run.isSome

/-- `_offset_in_run` -/
def offsetInRun (spans : List OSpan) (o : OSpan) : Nat :=
  (spans.filter fun s => s.sp.run = o.sp.run && s.sp.run.isSome && s.start < o.start).foldl (fun a s => a + s.sp.text.length) 0

end Adeu.Doc

namespace Adeu.Doc
open Adeu

/-! ### session state -/

structure Sess where
  doc : Document
  author : Str
  date : Str
  nextRev : Nat      -- `current_id`: the id handed out last
  nextCom : Nat      -- `comments_manager.next_id`
  fresh : Nat := 0   -- generated paragraph / durable ids so far
  cmap : CMap := []  -- the comment data the mappers hold: extracted once, when the session is opened
deriving Inhabited

def revMax (m : Nat) (n : Node) : Nat :=
  match n with
  | .ins rev _ | .del rev _ => match strNat? rev.id with | some k => max m k | none => m
  | _ => m

def maxRevIdNodes (ns : List Node) : Nat := ns.foldl revMax 0

/-- rest of the string behind the first occurrence of `pat` -/
def afterSub (pat : Str) : Str → Option Str
  | [] => if pat.isEmpty then some [] else none
  | c :: s => if pat.isPrefixOf (c :: s) then some ((c :: s).drop pat.length) else afterSub pat s

/-- numeric `w:id`s of `w:ins` / `w:del` elements inside an opaque piece of XML (paragraph-mark revisions in
`w:pPr/w:rPr`, tracked rows in `w:trPr`, …): the engine's id scan (`.//w:ins`, `.//w:del`) sees those too -/
def xmlRevIds : Str → List Nat
  | [] => []
  | c :: rest =>
    let s := c :: rest
    let here : List Nat :=
      if "<w:ins ".toList.isPrefixOf s || "<w:del ".toList.isPrefixOf s then
        match afterSub "w:id=\"".toList (s.takeWhile (· ≠ '>')) with
        | some v => match strNat? (v.takeWhile (· ≠ '"')) with | some k => [k] | none => []
        | none => []
      else []
    here ++ xmlRevIds rest

def nodeXml : Node → Str
  | .other x => x
  | .ins _ ch => ch.flatMap fun | .other x => x | _ => []
  | _ => []

mutual
  /-- the opaque XML of a story: paragraph / table / row / cell properties, unknown elements -/
  def opaqueBlocks : List Block → Str
    | [] => []
    | .para p :: rest => p.ppr ++ p.nodes.flatMap nodeXml ++ opaqueBlocks rest
    | .table pr g rows :: rest => pr ++ g ++ opaqueRows rows ++ opaqueBlocks rest
    | .other x :: rest => x ++ opaqueBlocks rest
  def opaqueRows : List Row → Str
    | [] => []
    | .mk pr cells :: rest => pr ++ opaqueCells cells ++ opaqueRows rest
  def opaqueCells : List Cell → Str
    | [] => []
    | .mk pr _ _ bs :: rest => pr ++ opaqueBlocks bs ++ opaqueCells rest
end

def maxNat (l : List Nat) : Nat := l.foldl max 0

/-- `_scan_existing_ids`: the main part and the header / footer parts the engine can reach; marks that are
paragraph children and marks inside opaque properties alike -/
def scanRevIds (d : Document) : Nat :=
  max ((docParts d).foldl (fun m bs => max m (maxRevIdNodes (allNodesBlocks bs))) 0)
      (maxNat ((docParts d).flatMap fun bs => xmlRevIds (opaqueBlocks bs)))

/-- `_get_next_comment_id` -/
def nextCommentId (d : Document) : Nat :=
  (d.comments.foldl (fun m c => match strNat? c.id with | some k => max m k | none => m) 0) + 1

def Sess.open (d : Document) (author date : Str) : Sess :=
  let nd := normalize d
  { doc := { nd with hasExtended := true }, author := author, date := date, nextRev := scanRevIds nd,
    nextCom := nextCommentId nd, cmap := commentsMap { nd with hasExtended := true } }

def Sess.newRev (s : Sess) : Sess × Rev :=
  ({ s with nextRev := s.nextRev + 1 }, ⟨natStr (s.nextRev + 1), some s.author, some s.date⟩)

def freshId (k : Nat) : Str := "NEW".toList ++ natStr k

/-- `str.split()` : maximal runs of non-whitespace -/
def wordsOf (s : Str) : List Str :=
  let rec go (cur : Str) : Str → List Str
    | [] => if cur.isEmpty then [] else [cur.reverse]
    | c :: r => if Trim.pyIsSpace c then (if cur.isEmpty then go [] r else cur.reverse :: go [] r) else go (c :: cur) r
  go [] s

/-- `_get_initials` -/
def initials (author : Str) : Option Str :=
  let parts := wordsOf author
  let ini := parts.filterMap fun p => p.head?.map upperAscii
  if ini.isEmpty then none else some ini

/-- `_find_thread_root_para_id` -/
def threadRootParaId (d : Document) (cid : Str) : Option Str :=
  let direct := (d.comments.find? (·.id = cid)).bind fun c => (c.paras.filterMap fun p => truthy p.paraId).head?
  match direct with
  | none => none
  | some pid =>
    match d.commentsEx.find? (fun e => e.paraId = some pid) with
    | some e => match truthy e.parent with | some par => some par | none => some pid
    | none => some pid

/-- `CommentsManager.add_comment` -/
def Sess.addComment (s : Sess) (text : Str) (parent : Option Str) : Sess × Str :=
  let cid := natStr s.nextCom
  let pid := freshId s.fresh
  let dur := freshId (s.fresh + 1)
  let c : Comment := { id := cid, author := some s.author, date := some "NOW".toList, initials := initials s.author,
                       paras := [{ paraId := some pid, text := [text] }], legacyParent := none, doneAttr := none }
  let parentPid := parent.bind (threadRootParaId s.doc)
  let d := s.doc
  let d' := { d with comments := d.comments ++ [c],
                     commentsEx := d.commentsEx ++ [{ paraId := some pid, parent := parentPid, done := some "0".toList }],
                     commentsIds := d.commentsIds ++ [(pid, dur)],
                     commentsCex := d.commentsCex ++ [(dur, "NOW".toList)] }
  ({ s with doc := d', nextCom := s.nextCom + 1, fresh := s.fresh + 2 }, cid)

def crefRun (cid : Str) : Run :=
  { b := none, i := none, rest := "<w:rStyle w:val=\"CommentReference\"/>".toList, ch := [.cref cid] }

/-! ### Markdown in new text -/

def pyIsWord (c : Char) : Bool :=
  c.isAlphanum || c = '_' || (c.toNat ≥ 0xC0 && c.toNat ≠ 0xD7 && c.toNat ≠ 0xF7)

/-- `_parse_markdown_style`: (text, heading level) -/
def parseMdStyle (text : Str) : Str × Option Nat :=
  if text.head? = some '#' then
    let rest := text.dropWhile (· = '#')
    let level := text.length - rest.length
    if rest.head? = some ' ' then (stripStr Trim.pyIsSpace rest, some level) else (text, none)
  else (text, none)

/-- `re.split(r"[\r\n]+", text)` -/
def splitLines (t : Str) : List Str :=
  let rec go (cur : Str) (inSep : Bool) : Str → List Str
    | [] => [cur.reverse]
    | c :: r =>
      if c = '\n' || c = '\r' then (if inSep then go cur true r else cur.reverse :: go [] true r)
      else go (c :: cur) false r
  go [] false t

structure Seg where
  text : Str
  bold : Bool
  italic : Bool
deriving Repr, DecidableEq, Inhabited

def findFrom (p : Nat → Bool) (lo hi : Nat) : Option Nat :=
  (List.range (hi - lo)).map (· + lo) |>.find? p

/-- leftmost match of `(\*\*(?=\S).+?(?<=\S)\*\*)|((?<![\w_])_(?=[^\s_]).*?(?<=[^\s_])_(?![\w_]))`:
(start, end, isBold) -/
def findSpan (t : Array Char) : Option (Nat × Nat × Bool) :=
  let n := t.size
  let sp (i : Nat) : Bool := match t[i]? with | some c => Trim.pyIsSpace c | none => true
  let isStar2 (i : Nat) : Bool := t[i]? = some '*' && t[i + 1]? = some '*'
  let wordOrUs (i : Nat) : Bool := match t[i]? with | some c => pyIsWord c | none => false
  let spOrUs (i : Nat) : Bool := match t[i]? with | some c => Trim.pyIsSpace c || c = '_' | none => true
  (List.range n).findSome? fun i =>
    let bold : Option (Nat × Nat × Bool) :=
      if isStar2 i && i + 2 < n && !sp (i + 2) then
        -- content t[i+2 .. j), j ≥ i+3, t[j-1] not space, closing ** at j
        (findFrom (fun j => isStar2 j && !sp (j - 1)) (i + 3) n).map fun j => (i, j + 2, true)
      else none
    match bold with
    | some m => some m
    | none =>
      if t[i]? = some '_' && !(i > 0 && wordOrUs (i - 1)) && i + 1 < n && !spOrUs (i + 1) then
        (findFrom (fun j => t[j]? = some '_' && !spOrUs (j - 1) && !wordOrUs (j + 1)) (i + 2) n).map fun j => (i, j + 1, false)
      else none

/-- `_parse_inline_markdown` -/
def parseInline : Nat → Str → Bool → Bool → List Seg
  | 0, t, b, i => if t.isEmpty then [] else [⟨t, b, i⟩]
  | fuel + 1, t, b, i =>
    if t.isEmpty then []
    else
      match findSpan t.toArray with
      | none => [⟨t, b, i⟩]
      | some (s, e, isBold) =>
        let pre := t.take s
        let inner := if isBold then (t.take (e - 2)).drop (s + 2) else (t.take (e - 1)).drop (s + 1)
        let post := t.drop e
        (if pre.isEmpty then [] else [⟨pre, b, i⟩]) ++
          parseInline fuel inner (b || isBold) (i || !isBold) ++ parseInline fuel post b i

def inlineSegs (t : Str) : List Seg := parseInline (t.length + 1) t false false

/-- `_apply_run_props` on the properties copied from the style source -/
def applyRunProps (base : Option Run) (seg : Seg) (suppress : Bool) : Run :=
  let b0 := base.bind (·.b)
  let i0 := base.bind (·.i)
  let rest := (base.map (·.rest)).getD []
  let empty0 := (base.map (·.emptyRPr)).getD false
  let hadRPr := b0.isSome || i0.isSome || !rest.isEmpty || empty0
  if !seg.bold && !seg.italic && !suppress then
    { b := b0, i := i0, rest := rest, ch := [], emptyRPr := empty0 }
  else
    let b := if seg.bold then some "1".toList else if suppress && b0.isSome then some "0".toList else b0
    let i := if seg.italic then some "1".toList else if suppress && i0.isSome then some "0".toList else i0
    { b := b, i := i, rest := rest, ch := [], emptyRPr := (!hadRPr || empty0) && b.isNone && i.isNone && rest.isEmpty }

def insRuns (text : Str) (style : Option Run) (suppress : Bool) : List InsChild :=
  (inlineSegs text).map fun seg => .run { applyRunProps style seg suppress with ch := [.t seg.text] }

def headingStyleId (level : Nat) : Str := "Heading".toList ++ natStr level

end Adeu.Doc

namespace Adeu.Doc
open Adeu

/-- the map of the session's mapper: rebuilt from the document as it is now, with the comment data of session start
(comments added during the session are not rendered in the text the later edits of a batch are matched against) -/
def Sess.spans (s : Sess) (clean : Bool) : List OSpan := withOffsets (buildSpansWith s.cmap clean s.doc)

def Sess.getRun (s : Sess) (r : RunRef) : Option Run := (getPara s.doc r.para).bind fun p => Doc.getRun p.nodes r.loc

/-- split the run `r` at run offset `k` in the document; (document, left, right) -/
def Sess.splitRun (s : Sess) (r : RunRef) (k : Nat) : Sess × RunRef × RunRef :=
  match getPara s.doc r.para with
  | none => (s, r, r)
  | some p =>
    let (_, l, rr) := splitRunAt p.nodes r.loc k
    ({ s with doc := modPara s.doc r.para fun p => ({ p with nodes := (splitRunAt p.nodes r.loc k).1 }, []) },
      ⟨r.para, l⟩, ⟨r.para, rr⟩)

def shiftRef (at_ : RunRef) (r : RunRef) : RunRef :=
  if r.para = at_.para then { r with loc := shiftLoc at_.loc r.loc } else r

/-- `get_insertion_anchor` -/
def insertionAnchor (s : Sess) (spans : List OSpan) (index : Nat) : Sess × Option RunRef :=
  let preceding := spans.filter (·.stop = index)
  let viaPreceding : Option (Sess × Option RunRef) :=
    match preceding.getLast? with
    | some o =>
      match o.sp.run with
      | some r =>
        -- one line of a formatted run that goes on after a line break: the anchor is the part of the run
        -- up to this line's end
        if spans.any (fun o' => o'.sp.run == some r && o'.start > o.start) then
          let (s', l, _) := s.splitRun r (offsetInRun spans o + o.sp.text.length)
          some (s', some l)
        else some (s, some r)
      | none => none
    | none => none
  match viaPreceding with
  | some res => res
  | none =>
    let containing := spans.filter fun o => o.start < index && index < o.stop
    let viaContaining : Option (Sess × Option RunRef) :=
      match containing.head? with
      | some o =>
        match o.sp.run with
        | some r =>
          let (s', l, _) := s.splitRun r (offsetInRun spans o + (index - o.start))
          some (s', some l)
        | none => none
      | none => none
    match viaContaining with
    | some res => res
    | none =>
      if index = 0 && !spans.isEmpty then (s, (spans.find? (·.real)).bind (·.sp.run))
      else (s, ((spans.filter fun o => o.stop < index && o.real).getLast?).bind (·.sp.run))

def isSepText (t : Str) : Bool := t = ['\n', '\n'] || t = ['\n'] || t = " | ".toList

/-- `get_insertion_point`: (anchor, insert_before) -/
def insertionPoint (s : Sess) (spans : List OSpan) (index : Nat) : Sess × Option RunRef × Bool :=
  if index = 0 then
    let (s', a) := insertionAnchor s spans index
    (s', a, true)
  else
    let preceding := spans.filter (·.stop = index)
    let realEndsHere := (preceding.getLast?.map (·.real)).getD false
    let contained := spans.any fun o => o.real && o.start < index && index < o.stop
    let rec scan : List OSpan → Option (Sess × Option RunRef × Bool)
      | [] => none
      | o :: rest =>
        if o.start < index then scan rest
        else match o.sp.run with
          | some r =>
            let off := offsetInRun spans o
            if off > 0 then
              let (s', l, _) := s.splitRun r off
              some (s', some l, false)
            else some (s, some r, true)
          | none => if isSepText o.sp.text then none else scan rest
    let direct := if !realEndsHere && !contained then scan spans else none
    match direct with
    | some res => res
    | none =>
      let (s', a) := insertionAnchor s spans index
      (s', a, false)

def dedupRefs (l : List RunRef) : List RunRef := l.eraseDups

/-- start split of `_resolve_runs_at_range`: (session, working runs, adjustment) -/
def startSplit (s : Sess) (working : List RunRef) (w0 : RunRef) (localStart : Nat) : Sess × List RunRef × Nat :=
  if localStart > 0 then
    let (s', _, r) := s.splitRun w0 localStart
    (s', r :: (working.drop 1).map (shiftRef w0), localStart)
  else (s, working, 0)

/-- end split of `_resolve_runs_at_range` -/
def endSplit (s1 : Sess) (working1 : List RunRef) (sameRun : Bool) (adj localEnd : Nat) : Sess × List RunRef :=
  match working1.getLast? with
  | none => (s1, working1)
  | some lastRun =>
    let localEnd' := if sameRun && adj > 0 then localEnd - adj else localEnd
    let len := ((s1.getRun lastRun).map fun r => (runText r).length).getD 0
    if 0 < localEnd' && localEnd' < len then
      let (s2, l, _) := s1.splitRun lastRun localEnd'
      (s2, working1.dropLast ++ [l])
    else (s1, working1)

/-- `_resolve_runs_at_range` -/
def resolveRuns (s : Sess) (spans : List OSpan) (start stop : Nat) : Sess × List RunRef :=
  let affected := spans.filter fun o => o.stop > start && o.start < stop
  let realAff := affected.filter (·.real)
  let working := dedupRefs (realAff.filterMap (·.sp.run))
  match realAff.head?, realAff.getLast?, working with
  | some first, some last, w0 :: _ =>
    let localStart := offsetInRun spans first + (start - first.start)
    let localEnd := offsetInRun spans last + (min last.stop stop - last.start)
    let sameRun : Bool := first.sp.run = last.sp.run
    let r1 := startSplit s working w0 localStart
    endSplit r1.1 r1.2.1 sameRun r1.2.2 localEnd
  | _, _, _ => (s, [])

/-- `w:t` → `w:delText` -/
def Atom.delete : Atom → Atom
  | .t s => .dt s
  | a => a

def Run.deleted (r : Run) : Run := { r with ch := r.ch.map Atom.delete }

/-- `track_delete_run`: the run is replaced by a `w:del` that contains it -/
def deleteRunNodes (ns : List Node) (loc : Loc) (rev : Rev) : List Node :=
  replaceRun ns loc (fun run => [Node.del rev [run.deleted]])
    (fun run => [InsChild.other ("<nested w:del>".toList ++ runText run)]) (fun run => [run.deleted])

def trackDelete (s : Sess) (r : RunRef) : Sess × Rev :=
  let (s1, rev) := s.newRev
  let d := modPara s1.doc r.para fun p => ({ p with nodes := deleteRunNodes p.nodes r.loc rev }, [])
  ({ s1 with doc := d }, rev)

def insertNodesAt (ns : List Node) (idx : Nat) (new : List Node) : List Node := ns.take idx ++ new ++ ns.drop idx

/-- drop the self-closing `<w:ins …/>` / `<w:del …/>` elements of a piece of XML (`fuel` bounds the scan) -/
def dropMarks : Nat → Str → Str
  | 0, s => s
  | _, [] => []
  | fuel + 1, c :: rest =>
    let s := c :: rest
    if "<w:ins ".toList.isPrefixOf s || "<w:del ".toList.isPrefixOf s then
      match afterSub "/>".toList s with
      | some r => dropMarks fuel r
      | none => c :: dropMarks fuel rest
    else c :: dropMarks fuel rest

/-- remove every occurrence of `pat` -/
def removeSub (pat : Str) : Nat → Str → Str
  | 0, s => s
  | _, [] => []
  | fuel + 1, c :: rest =>
    if !pat.isEmpty && pat.isPrefixOf (c :: rest) then removeSub pat fuel ((c :: rest).drop pat.length)
    else c :: removeSub pat fuel rest

/-- drop the `<w:sectPr>…</w:sectPr>` elements (section breaks) of a piece of XML (`fuel` bounds the scan) -/
def dropSect : Nat → Str → Str
  | 0, s => s
  | _, [] => []
  | fuel + 1, c :: rest =>
    let s := c :: rest
    if "<w:sectPr/>".toList.isPrefixOf s then dropSect fuel (s.drop 11)
    else if "<w:sectPr>".toList.isPrefixOf s || "<w:sectPr ".toList.isPrefixOf s then
      match afterSub "</w:sectPr>".toList s with
      | some r => dropSect fuel r
      | none => c :: dropSect fuel rest
    else c :: dropSect fuel rest

/-- `_copy_paragraph_properties`: a new paragraph modelled on an existing one does not take over the tracked
change of that paragraph's mark (its id would be duplicated) nor its section break (it would start a new
section with every new paragraph) -/
def copyPPr (ppr : Str) : Str :=
  dropSect ppr.length (removeSub "<w:rPr></w:rPr>".toList ppr.length (dropMarks ppr.length ppr))

/-- paragraphs created for the lines of a multi-line insertion (style of each line, runs, one id each) -/
def lineParas (s : Sess) (lines : List Str) (style : Option Run) (suppress : Bool) (ppr : Para) :
    Sess × List Block :=
  lines.foldl (fun (acc : Sess × List Block) line =>
    let (s0, bs) := acc
    let (clean, lvl) := parseMdStyle line
    if clean.isEmpty && lvl.isNone then (s0, bs)
    else
      let (s1, rev) := s0.newRev
      let p : Para := match lvl with
        | some l => { style := some (headingStyleId l), ppr := [], nodes := [.ins rev (insRuns clean style suppress)] }
        | none => { style := ppr.style, ppr := copyPPr ppr.ppr, nodes := [.ins rev (insRuns clean style suppress)] }
      (s1, bs ++ [.para p])) (s, [])

end Adeu.Doc

namespace Adeu.Doc
open Adeu

inductive EOp | insertion | deletion | modification
deriving Repr, DecidableEq, Inhabited

def truthyStr (o : Option Str) : Option Str := truthy o

/-- decorate freshly created paragraphs with the range of comment `cid` (heading path of `track_insert`) -/
def decorateBlocks (bs : List Block) (cid : Str) : List Block :=
  let n := bs.length
  bs.zipIdx.map fun (b, i) =>
    match b with
    | .para p =>
      let pre := if i = 0 then [Node.cs cid] else []
      let post := if i + 1 = n then [Node.ce cid, Node.run (crefRun cid)] else []
      .para { p with nodes := pre ++ p.nodes ++ post }
    | b => b

/-- `track_insert`: (session, inline `w:ins` for the caller to place, paragraphs to put after the anchor paragraph) -/
def trackInsert (s : Sess) (text : Str) (style : Option Run) (hasPara : Bool) (anchorPara : Para)
    (comment : Option Str) (suppress : Bool) : Sess × Option Node × List Block :=
  let lines := splitLines text
  let first := lines.headD []
  match (parseMdStyle first).2 with
  | some _ =>
    if style.isNone || !hasPara then (s, none, [])
    else
      let (s1, blocks) := lineParas s lines style suppress anchorPara
      match truthyStr comment with
      | some c =>
        if blocks.isEmpty then (s1, none, blocks)
        else
          let (s2, cid) := s1.addComment c none
          (s2, none, decorateBlocks blocks cid)
      | none => (s1, none, blocks)
  | none =>
    let remaining := lines.drop 1
    let remaining := if remaining.getLast? = some [] then remaining.dropLast else remaining
    if first.isEmpty && !remaining.isEmpty && style.isSome then
      -- text starts with a line break: no empty w:ins; the new paragraphs carry the comment
      if !hasPara then (s, none, [])
      else
        let (s1, blocks) := lineParas s remaining style suppress anchorPara
        match truthyStr comment with
        | some c =>
          if blocks.isEmpty then (s1, none, blocks)
          else
            let (s2, cid) := s1.addComment c none
            (s2, none, decorateBlocks blocks cid)
        | none => (s1, none, blocks)
    else
      let (s1, rev) := s.newRev
      let ins := Node.ins rev (insRuns first style suppress)
      if remaining.isEmpty || style.isNone || !hasPara then (s1, some ins, [])
      else
        let (s2, blocks) := lineParas s1 remaining style suppress anchorPara
        (s2, some ins, blocks)

/-- `_attach_comment(parent, start, end, text)` on a child list: start / end are node indices -/
def attachCommentNodes (ns : List Node) (startIdx endIdx : Nat) (cid : Str) : List Node :=
  let ns1 := insertNodesAt ns startIdx [.cs cid]
  insertNodesAt ns1 (endIdx + 2) [.ce cid, .run (crefRun cid)]

def touchesDeletion (spans : List OSpan) (start stop : Nat) : Bool :=
  spans.any fun o => o.real && o.sp.delId.isSome && o.stop > start && o.start < stop

def contextSpan (spans : List OSpan) (start stop : Nat) : Option OSpan :=
  spans.find? fun o => o.real && o.stop > start && o.start < stop

/-- `insertion_enclosing_range`: id of the pending insertion that contains every real character of the range -/
def insertionEnclosing (spans : List OSpan) (start stop : Nat) : Option Str :=
  let real := spans.filter fun o => o.real && o.stop > start && o.start < stop
  match real.head? with
  | none => none
  | some o =>
    match truthyStr o.sp.insId with
    | some id => if real.all (fun x => x.sp.insId == some id) then some id else none
    | none => none

/-- `insertion_around`: id of the pending insertion whose text lies directly on both sides of `index` -/
def insertionAround (spans : List OSpan) (index : Nat) : Option Str :=
  let before := spans.filter fun o => o.real && o.start < index && index ≤ o.stop
  let after := spans.filter fun o => o.real && o.start ≤ index && index < o.stop
  match before.getLast?, after.head? with
  | some b, some a =>
    match truthyStr b.sp.insId with
    | some id => if a.sp.insId == some id then some id else none
    | none => none
  | _, _ => none

mutual
  /-- first `w:ins` with the given id in document order: (path below the part, node index, first run child) -/
  def findInsBlocks (id : Str) : List Block → Nat → Option (List Nat × Nat × Option Run)
    | [], _ => none
    | .para p :: rest, bi =>
      match (p.nodes.zipIdx.findSome? fun (n, i) => match n with
          | .ins rev ch => if rev.id = id then some (i, ch.findSome? fun c => match c with | .run r => some r | _ => none) else none
          | _ => none) with
      | some (i, r) => some ([bi], i, r)
      | none => findInsBlocks id rest (bi + 1)
    | .table _ _ rows :: rest, bi =>
      match findInsRows id rows 0 with
      | some (path, i, r) => some (bi :: path, i, r)
      | none => findInsBlocks id rest (bi + 1)
    | .other _ :: rest, bi => findInsBlocks id rest (bi + 1)
  def findInsRows (id : Str) : List Row → Nat → Option (List Nat × Nat × Option Run)
    | [], _ => none
    | .mk _ cells :: rest, ri =>
      match findInsCells id cells 0 with
      | some (path, i, r) => some (ri :: path, i, r)
      | none => findInsRows id rest (ri + 1)
  def findInsCells (id : Str) : List Cell → Nat → Option (List Nat × Nat × Option Run)
    | [], _ => none
    | .mk _ _ _ bs :: rest, ci =>
      match findInsBlocks id bs 0 with
      | some (path, i, r) => some (ci :: path, i, r)
      | none => findInsCells id rest (ci + 1)
end

def bodyPartIndex (d : Document) : Nat := (partSels d).idxOf PartSel.body

/-- part index of the story the range's first real span lies in (the main document when there is none) -/
def storyOfRange (s : Sess) (spans : List OSpan) (start stop : Nat) : Nat :=
  match (contextSpan spans start stop).bind (·.sp.run) with
  | some r => r.para.head?.getD (bodyPartIndex s.doc)
  | none => bodyPartIndex s.doc

def opOf (op : Option EOp) (len : Nat) (newText : Str) : EOp :=
  match op with
  | some o => o
  | none =>
    if len = 0 && !newText.isEmpty then .insertion
    else if len > 0 && newText.isEmpty then .deletion
    else .modification

/-- `_get_next_run`: next sibling `w:r` of the run (inside its own parent) -/
def nextRun (ns : List Node) (loc : Loc) : Option Run :=
  match loc.sub with
  | none => (ns.drop (loc.node + 1)).findSome? fun | .run r => some r | _ => none
  | some k =>
    match ns[loc.node]? with
    | some (.ins _ ch) => (ch.drop (k + 1)).findSome? fun | .run r => some r | _ => none
    | some (.del _ runs) => runs[k + 1]?
    | _ => none

def endsWithSpace (t : Str) : Bool := t.getLast? = some ' '

def hasBreak (t : Str) : Bool := t.any fun c => c = '\n' || c = '\r'

/-- `re.split(r"[\r\n]", text)`: one piece per line break (consecutive breaks give empty pieces) -/
def splitBreaks (t : Str) : List Str :=
  let rec go (cur : Str) : Str → List Str
    | [] => [cur.reverse]
    | c :: r => if c = '\n' || c = '\r' then cur.reverse :: go [] r else go (c :: cur) r
  go [] t

/-- `_track_insert_inline_lines`: children of one inline `w:ins` for a text with line breaks (a `w:br` run per break) -/
def brRun (style : Option Run) : InsChild :=
  .run { applyRunProps style ⟨[], false, false⟩ false with ch := [.br] }

def inlineLines (text : Str) (style : Option Run) : List InsChild :=
  match splitBreaks text with
  | [] => []
  | l :: ls => insRuns l style false ++ ls.flatMap fun line => brRun style :: insRuns line style false

/-- what replaces a rewritten insertion: a text with line breaks stays one inline insertion (breaks as `w:br`),
otherwise `track_insert` with the (detached) style source -/
def nestedIns (s : Sess) (text : Str) (style : Option Run) (comment : Option Str) : Sess × Option Node × List Block :=
  if hasBreak text then (s.newRev.1, some (Node.ins s.newRev.2 (inlineLines text style)), [])
  else trackInsert s text style false default comment false

/-- `insertion_text_around`: how many characters of the insertion's own spans lie before `idx` (formatting markers
and other virtual text between its runs are counted by the offsets, but are not part of its text) -/
def insCharsBefore (insSp : List OSpan) (idx : Nat) : Nat :=
  (insSp.map fun o => min (idx - o.start) o.sp.text.length).sum

/-- the text of the insertion `insId` with the range `[start, start+len)` replaced by `newText` -/
def nestedText (spans : List OSpan) (start len : Nat) (insId newText : Str) : Str :=
  let insSp := spans.filter fun o => o.sp.insId == some insId
  let full := insSp.flatMap (·.sp.text)
  full.take (insCharsBefore insSp start) ++ newText ++ full.drop (insCharsBefore insSp (start + len))

/-- the edit lands inside a pending insertion: reject that insertion, insert its text - with the range replaced -
in its place.  The insertion is looked up - and rejected - in the story `pi` the range lies in (revision ids are
unique per part only) -/
def nestedReplace (s : Sess) (pi : Nat) (insId : Str) (newText : Str) (comment : Option Str) : Sess × Bool :=
  match findInsBlocks insId ((docParts s.doc)[pi]?.getD []) 0 with
  | none => (s, false)
  | some (path, idx, style) =>
    let pp := pi :: path
    let s1 := { s with doc := modPart s.doc pi fun bs => (rejectChange insId bs).1 }
    if newText.isEmpty then (s1, true)
    else
      let (s2, ins, _) := nestedIns s1 newText style comment
      match ins with
      | none => (s2, true)
      | some insNode =>
        match truthyStr comment with
        | some c =>
          let (s3, cid) := s2.addComment c none
          ({ s3 with doc := modPara s3.doc pp fun p =>
              ({ p with nodes := attachCommentNodes (insertNodesAt p.nodes idx [insNode]) idx idx cid }, []) }, true)
        | none =>
          ({ s2 with doc := modPara s2.doc pp fun p => ({ p with nodes := insertNodesAt p.nodes idx [insNode] }, []) }, true)

/-- the INSERTION branch once the anchor run and its paragraph are known: style source, `track_insert`,
placement next to the anchor (next to the enclosing mark when the anchor sits in one), comment -/
def placeInsertion (s1 : Sess) (a : RunRef) (before : Bool) (p : Para) (newText : Str) (comment : Option Str) : Sess :=
  let anchorRun := Doc.getRun p.nodes a.loc
  let styleRun := if before then anchorRun
    else match nextRun p.nodes a.loc with
      | none => anchorRun
      | some nr => if endsWithSpace newText then some nr else anchorRun
  let (s2, ins, extra) := trackInsert s1 newText styleRun true p comment false
  let at_ := if before then a.loc.node else a.loc.node + 1
  match ins with
  | none => { s2 with doc := modPara s2.doc a.para fun p => (p, extra) }
  | some insNode =>
    match truthyStr comment with
    | some c =>
      let (s3, cid) := s2.addComment c none
      { s3 with doc := modPara s3.doc a.para fun p =>
          ({ p with nodes := attachCommentNodes (insertNodesAt p.nodes at_ [insNode]) at_ at_ cid }, extra) }
    | none =>
      { s2 with doc := modPara s2.doc a.para fun p =>
          ({ p with nodes := insertNodesAt p.nodes at_ [insNode] }, extra) }

/-- anchor of an insertion: `get_insertion_point`; block-level text (new paragraphs / headings) in front of a
paragraph keeps anchoring on the preceding paragraph (`get_insertion_anchor`), but only inside the same story -/
def chooseAnchor (s : Sess) (spans : List OSpan) (start : Nat) (blockLevel : Bool) : Sess × Option RunRef × Bool :=
  let r0 := insertionPoint s spans start
  if r0.2.2 && start ≠ 0 && blockLevel then
    let ra := insertionAnchor s spans start
    let samePart : Bool := match ra.2, r0.2.1 with
      | some x, some y => x.para.head? == y.para.head?
      | _, _ => false
    if samePart then (ra.1, ra.2, false) else (ra.1, r0.2.1, true)
  else r0

/-- the INSERTION branch of `_apply_single_edit_indexed` -/
def applyInsertion (s : Sess) (spans : List OSpan) (start : Nat) (newText : Str) (comment : Option Str) : Sess × Bool :=
  let firstLine := (splitLines newText).headD []
  let blockLevel := (parseMdStyle firstLine).2.isSome || newText.any (fun c => c = '\n' || c = '\r')
  let r1 := chooseAnchor s spans start blockLevel
  match r1.2.1 with
  | none => (r1.1, false)
  | some a =>
    match getPara r1.1.doc a.para with
    | none => (r1.1, false)
    | some p => (placeInsertion r1.1 a r1.2.2 p newText comment, true)

def hasRunChild (ch : List InsChild) : Bool := ch.any fun | .run _ => true | _ => false

/-- take the run child `k` out of the pending insertion at node `n`; an insertion left without runs is
unwrapped (range markers in it stay): (new children, `some m` if it was unwrapped into `m` nodes) -/
def takeOutOfIns (ns : List Node) (n k : Nat) : List Node × Option Nat :=
  match ns[n]? with
  | some (.ins rev ch) =>
    let ch' := ch.eraseIdx k
    if hasRunChild ch' then (ns.set n (.ins rev ch'), none)
    else (ns.take n ++ ch'.map InsChild.toNode ++ ns.drop (n + 1), some ch'.length)
  | _ => (ns, none)

/-- a take-out event: paragraph, node, child, unwrapped into how many nodes -/
abbrev TakeOut := PPath × Nat × Nat × Option Nat

/-- where a run reference of the same paragraph points after a take-out -/
def applyTakeOut (t : RunRef) (a : TakeOut) : RunRef :=
  if t.para ≠ a.1 then t
  else
    match a.2.2.2 with
    | none =>
      if t.loc.node = a.2.1 then
        match t.loc.sub with
        | some j => if j > a.2.2.1 then { t with loc := { t.loc with sub := some (j - 1) } } else t
        | none => t
      else t
    | some m => if t.loc.node > a.2.1 then { t with loc := { t.loc with node := t.loc.node + m - 1 } } else t

structure Retired where
  s : Sess
  firstDel : Option RunRef := none     -- the first `w:del` created (paragraph, node)
  lastDel : Option RunRef := none
  anchor : Option (PPath × Nat × Bool) := none   -- where new text goes: paragraph, node, behind it?
  outs : List TakeOut := []

/-- the loop over the target runs: a run of ordinary text becomes a `w:del` of its own (one id each); a run
that belongs to a pending insertion is taken out of that insertion instead (no mark inside a mark) -/
def retireTargets : Retired → List RunRef → Retired
  | st, [] => st
  | st, t0 :: rest =>
    let t := st.outs.foldl applyTakeOut t0
    let inIns : Option Nat :=
      match t.loc.sub, (getPara st.s.doc t.para).bind (fun p => p.nodes[t.loc.node]?) with
      | some k, some (.ins _ _) => some k
      | _, _ => none
    match inIns with
    | some k =>
      let unw := ((getPara st.s.doc t.para).map fun p => (takeOutOfIns p.nodes t.loc.node k).2).getD none
      let s' := { st.s with doc := modPara st.s.doc t.para fun p => ({ p with nodes := (takeOutOfIns p.nodes t.loc.node k).1 }, []) }
      retireTargets { st with s := s', anchor := some (t.para, t.loc.node, false),
                              outs := st.outs ++ [(t.para, t.loc.node, k, unw)] } rest
    | none =>
      let s' := (trackDelete st.s t).1
      retireTargets { st with s := s', firstDel := st.firstDel.orElse (fun _ => some t), lastDel := some t,
                              anchor := some (t.para, t.loc.node, true) } rest

/-- DELETION / MODIFICATION once the target runs are known (`sPre` = session before the deletions, whose last
target run is the style source): the target runs are retired, then the `w:ins` goes behind the last deletion
(or in front of what is left of the insertion the range ended in), then the comment -/
def replaceTargets (sPre : Sess) (targets : List RunRef) (lastT : RunRef) (op : EOp) (newText : Str)
    (comment : Option Str) : Sess :=
  let rt := retireTargets { s := sPre } targets
  let s2 := rt.s
  if op = .deletion then
    -- a pure deletion keeps its comment: anchored on the deletion marks
    match truthyStr comment, rt.firstDel, rt.lastDel with
    | some c, some fd, some ld =>
      let (s3, cid) := s2.addComment c none
      if fd.para = ld.para then
        { s3 with doc := modPara s3.doc ld.para fun p =>
            ({ p with nodes := attachCommentNodes p.nodes fd.loc.node ld.loc.node cid }, []) }
      else
        let d1 := modPara s3.doc ld.para fun p =>
          ({ p with nodes := insertNodesAt p.nodes (ld.loc.node + 1) [.ce cid, .run (crefRun cid)] }, [])
        let d2 := modPara d1 fd.para fun p =>
          ({ p with nodes := insertNodesAt p.nodes fd.loc.node [.cs cid] }, [])
        { s3 with doc := d2 }
    | _, _, _ => s2
  else if newText.isEmpty then s2
  else
    match rt.anchor with
    | none => s2
    | some (apara, anode, after) =>
      match getPara s2.doc apara with
      | none => s2
      | some p =>
        let (cleanText, lvl) := parseMdStyle newText
        let text := match lvl with
          | some l => if styleName p.style = "Heading ".toList ++ natStr l then cleanText else newText
          | none => newText
        let hasMd := text.contains '_' || (text.zip (text.drop 1)).any (fun (a, b) => a = '*' && b = '*')
        let styleRun := (sPre.getRun lastT)
        let (s3, ins, extra) := trackInsert s2 text styleRun true p comment (!hasMd)
        let at_ := if after then anode + 1 else anode
        match ins with
        | none => { s3 with doc := modPara s3.doc apara fun p => (p, extra) }
        | some insNode =>
          match truthyStr comment with
          | some c =>
            let (s4, cid) := s3.addComment c none
            match rt.firstDel with
            | some fd =>
              if fd.para = apara then
                { s4 with doc := modPara s4.doc apara fun p =>
                    ({ p with nodes := attachCommentNodes (insertNodesAt p.nodes at_ [insNode]) fd.loc.node at_ cid }, extra) }
              else
                let d1 := modPara s4.doc apara fun p =>
                  ({ p with nodes := insertNodesAt (insertNodesAt p.nodes at_ [insNode]) (at_ + 1) [.ce cid, .run (crefRun cid)] }, extra)
                let d2 := modPara d1 fd.para fun p =>
                  ({ p with nodes := insertNodesAt p.nodes fd.loc.node [.cs cid] }, [])
                { s4 with doc := d2 }
            | none =>
              { s4 with doc := modPara s4.doc apara fun p =>
                  ({ p with nodes := attachCommentNodes (insertNodesAt p.nodes at_ [insNode]) at_ at_ cid }, extra) }
          | none =>
            { s3 with doc := modPara s3.doc apara fun p =>
                ({ p with nodes := insertNodesAt p.nodes at_ [insNode] }, extra) }

/-- the DELETION / MODIFICATION branch of `_apply_single_edit_indexed` -/
def applyReplace (s : Sess) (spans : List OSpan) (op : EOp) (start len : Nat) (newText : Str)
    (comment : Option Str) : Sess × Bool :=
  let r := resolveRuns s spans start (start + len)
  match r.2.head?, r.2.getLast? with
  | some _, some lastT => (replaceTargets r.1 r.2 lastT op newText comment, true)
  | _, _ => (r.1, false)

/-- `_apply_single_edit_indexed` -/
def applyIndexed (s : Sess) (clean : Bool) (start len : Nat) (newText : Str) (comment : Option Str)
    (op : Option EOp) : Sess × Bool :=
  let spans := s.spans clean
  let op := opOf op len newText
  if len > 0 && !clean && touchesDeletion spans start (start + len) then (s, false)
  else
    let ctxIns := if len > 0 then insertionEnclosing spans start (start + len) else none
    match ctxIns with
    | some id =>
      nestedReplace s (storyOfRange s spans start (start + len)) id (nestedText spans start len id newText) comment
    | none =>
      match op with
      | .insertion => applyInsertion s spans start newText comment
      | _ => applyReplace s spans op start len newText comment

structure IEdit where
  index : Nat
  target : Str
  new : Str
  comment : Option Str
deriving Repr, Inhabited

/-- one round of the indexed loop of `apply_edits`: overlap filter against the ranges of the edits applied
so far, then `_apply_single_edit_indexed` -/
def indexedStep (acc : Sess × Nat × Nat × List (Nat × Nat)) (e : IEdit) : Sess × Nat × Nat × List (Nat × Nat) :=
  let (s, ap, sk, occ) := acc
  let a := e.index
  let b := e.index + e.target.length
  if occ.any (fun (os, oe) => a < oe && b > os) then (s, ap, sk + 1, occ)
  else
    let (s', ok) := applyIndexed s false e.index e.target.length e.new e.comment none
    if ok then (s', ap + 1, sk, occ ++ [(a, b)]) else (s', ap, sk + 1, occ)

/-- the indexed phase of `apply_edits`: reversed, then descending by index (stable: edits at one offset are
applied last-first); result: session, applied, skipped, occupied ranges -/
def applyEditsIndexedFull (s : Sess) (edits : List IEdit) : Sess × Nat × Nat × List (Nat × Nat) :=
  (edits.reverse.mergeSort fun a b => a.index ≥ b.index).foldl indexedStep (s, 0, 0, [])

/-- `apply_edits` for a batch of indexed edits -/
def applyEditsIndexed (s : Sess) (edits : List IEdit) : Sess × Nat × Nat :=
  let r := applyEditsIndexedFull s edits
  (r.1, r.2.1, r.2.2.1)

end Adeu.Doc

namespace Adeu.Doc
open Adeu

/-! ### review actions on a session (`apply_review_actions`) -/

mutual
  /-- apply `f` to the child list of the first paragraph (document order) where it succeeds -/
  def firstParaBlocks (f : List Node → Option (List Node)) : List Block → Option (List Block)
    | [] => none
    | .para p :: rest =>
      match f p.nodes with
      | some ns => some (.para { p with nodes := ns } :: rest)
      | none => (firstParaBlocks f rest).map (Block.para p :: ·)
    | .table pr g rows :: rest =>
      match firstParaRows f rows with
      | some rows' => some (.table pr g rows' :: rest)
      | none => (firstParaBlocks f rest).map (Block.table pr g rows :: ·)
    | .other x :: rest => (firstParaBlocks f rest).map (Block.other x :: ·)
  def firstParaRows (f : List Node → Option (List Node)) : List Row → Option (List Row)
    | [] => none
    | .mk pr cells :: rest =>
      match firstParaCells f cells with
      | some cells' => some (.mk pr cells' :: rest)
      | none => (firstParaRows f rest).map (Row.mk pr cells :: ·)
  def firstParaCells (f : List Node → Option (List Node)) : List Cell → Option (List Cell)
    | [] => none
    | .mk pr s v bs :: rest =>
      match firstParaBlocks f bs with
      | some bs' => some (.mk pr s v bs' :: rest)
      | none => (firstParaCells f rest).map (Cell.mk pr s v bs :: ·)
end

def insChildAfter (p : InsChild → Bool) (new : List InsChild) : List InsChild → Option (List InsChild)
  | [] => none
  | c :: rest => if p c then some (c :: new ++ rest) else (insChildAfter p new rest).map (c :: ·)

/-- insert after the first paragraph child (or insertion child) that satisfies the predicate -/
def insertAfterFirst (pTop : Node → Bool) (pIns : InsChild → Bool) (newTop : List Node) (newIns : List InsChild) :
    List Node → Option (List Node)
  | [] => none
  | n :: rest =>
    if pTop n then some (n :: newTop ++ rest)
    else
      match n with
      | .ins rev ch =>
        match insChildAfter pIns newIns ch with
        | some ch' => some (.ins rev ch' :: rest)
        | none => (insertAfterFirst pTop pIns newTop newIns rest).map (n :: ·)
      | _ => (insertAfterFirst pTop pIns newTop newIns rest).map (n :: ·)

def runHasCref (id : Str) (r : Run) : Bool := r.ch.any fun | .cref x => x = id | _ => false

/-- `_anchor_reply_comment` -/
def anchorReply (body : List Block) (parent new : Str) : List Block :=
  let afterStart := firstParaBlocks (insertAfterFirst (fun n => n = .cs parent) (fun c => c = .cs parent) [.cs new] [.cs new]) body
  match afterStart with
  | none => body
  | some b1 =>
    let hasEnd := (allNodesBlocks b1).any fun n => n = .ce parent || (match n with | .ins _ ch => ch.any (· = .ce parent) | _ => false)
    if !hasEnd then b1
    else
      let hasRef := (allNodesBlocks b1).any fun n => match n with
        | .run r => runHasCref parent r
        | .ins _ ch => ch.any fun | .run r => runHasCref parent r | _ => false
        | _ => false
      -- the reply's range end goes next to the parent's range end (same container) …
      let b2 := (firstParaBlocks (insertAfterFirst (fun n => n = .ce parent) (fun c => c = .ce parent)
        [Node.ce new] [InsChild.ce new]) b1).getD b1
      -- … and its reference run behind the parent's reference run (or behind its own range end)
      let refTop := [Node.run (crefRun new)]
      let refIns := [InsChild.run (crefRun new)]
      let res :=
        if hasRef then
          firstParaBlocks (insertAfterFirst (fun n => match n with | .run r => runHasCref parent r | _ => false)
            (fun c => match c with | .run r => runHasCref parent r | _ => false) refTop refIns) b2
        else
          firstParaBlocks (insertAfterFirst (fun n => n = .ce new) (fun c => c = .ce new) refTop refIns) b2
      res.getD b2

def Sess.applyAction (s : Sess) (a : Action) : Sess × Bool :=
  let (tid, isChange, isComment) := parseTarget a.target
  match a.kind with
  | .accept =>
    if isChange then
      let (b, ok) := acceptChange tid s.doc.body
      ({ s with doc := { s.doc with body := b } }, ok)
    else (s, false)
  | .reject =>
    if isChange then
      let (b, ok) := rejectChange tid s.doc.body
      ({ s with doc := { s.doc with body := b } }, ok)
    else (s, false)
  | .reply =>
    if isComment && s.doc.comments.any (·.id = tid) then
      let (s1, cid) := s.addComment (a.text.getD []) (some tid)
      ({ s1 with doc := { s1.doc with body := anchorReply s1.doc.body tid cid } }, true)
    else (s, false)

def Sess.applyActions (s : Sess) (acts : List Action) : Sess × Nat × Nat :=
  acts.foldl (fun (acc : Sess × Nat × Nat) a =>
    let (s', ok) := acc.1.applyAction a
    if ok then (s', acc.2.1 + 1, acc.2.2) else (s', acc.2.1, acc.2.2 + 1)) (s, 0, 0)

def Sess.acceptAllRevisions (s : Sess) : Sess := { s with doc := { s.doc with body := acceptAll s.doc.body } }

end Adeu.Doc
