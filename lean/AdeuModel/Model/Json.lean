import AdeuModel.Model.Str
/-
JSON values as Python's `json.loads` presents them (objects are insertion-ordered dictionaries with
unique keys; numbers are carried as the text Python prints for them) and `json.dump(v, indent=2)`.
-/
namespace Adeu

inductive J where
  | null
  | bool (b : Bool)
  | num (repr : Str)
  | str (s : Str)
  | arr (xs : List J)
  | obj (kvs : List (Str × J))
deriving Repr, Inhabited

namespace J

def hexDigit (n : Nat) : Char :=
  if n < 10 then Char.ofNat (48 + n) else Char.ofNat (87 + n)

def hex4 (n : Nat) : Str :=
  [hexDigit (n / 4096 % 16), hexDigit (n / 256 % 16), hexDigit (n / 16 % 16), hexDigit (n % 16)]

/-- `ensure_ascii=True` escaping of one code point. -/
def escChar (c : Char) : Str :=
  if c = '"' then ['\\', '"']
  else if c = '\\' then ['\\', '\\']
  else if c = '\n' then ['\\', 'n']
  else if c = '\r' then ['\\', 'r']
  else if c = '\t' then ['\\', 't']
  else if c.toNat = 8 then ['\\', 'b']
  else if c.toNat = 12 then ['\\', 'f']
  else if c.toNat < 32 ∨ c.toNat > 126 then
    if c.toNat < 0x10000 then ['\\', 'u'] ++ hex4 c.toNat
    else
      let v := c.toNat - 0x10000
      ['\\', 'u'] ++ hex4 (0xd800 + v / 1024) ++ ['\\', 'u'] ++ hex4 (0xdc00 + v % 1024)
  else [c]

def dumpStr (s : Str) : Str := ['"'] ++ s.flatMap escChar ++ ['"']

def indent (n : Nat) : Str := List.replicate (2 * n) ' '

mutual
  def dump (lvl : Nat) : J → Str
    | .null => "null".toList
    | .bool true => "true".toList
    | .bool false => "false".toList
    | .num r => r
    | .str s => dumpStr s
    | .arr [] => "[]".toList
    | .arr (x :: xs) =>
        ['[', '\n'] ++ indent (lvl + 1) ++ dump (lvl + 1) x ++ dumpArr (lvl + 1) xs ++ ['\n'] ++ indent lvl ++ [']']
    | .obj [] => "{}".toList
    | .obj ((k, v) :: kvs) =>
        ['{', '\n'] ++ indent (lvl + 1) ++ dumpStr k ++ [':', ' '] ++ dump (lvl + 1) v ++ dumpObj (lvl + 1) kvs
          ++ ['\n'] ++ indent lvl ++ ['}']
  def dumpArr (lvl : Nat) : List J → Str
    | [] => []
    | x :: xs => [',', '\n'] ++ indent lvl ++ dump lvl x ++ dumpArr lvl xs
  def dumpObj (lvl : Nat) : List (Str × J) → Str
    | [] => []
    | (k, v) :: kvs => [',', '\n'] ++ indent lvl ++ dumpStr k ++ [':', ' '] ++ dump lvl v ++ dumpObj lvl kvs
end

def lookup (k : Str) : List (Str × J) → Option J
  | [] => none
  | (k', v) :: r => if k' = k then some v else lookup k r

/-- `d[k] = v` on an insertion-ordered dictionary: replace in place, else append. -/
def setKey (k : Str) (v : J) : List (Str × J) → List (Str × J)
  | [] => [(k, v)]
  | (k', v') :: r => if k' = k then (k, v) :: r else (k', v') :: setKey k v r

end J
end Adeu
