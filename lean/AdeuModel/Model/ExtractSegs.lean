import AdeuModel.Model.Extract
import AdeuModel.Model.Markup
/-
Layer D — the raw view of a paragraph as a flat list of CriticMarkup segments: the walk of
`paraLoop false` replayed with a ghost output `g : List Seg` (executable, so the driver can evaluate
the hypotheses of the C04 theorems on every compared document), the per-character tag specification,
and the domain predicates of the document-level reading theorem.
-/
namespace Adeu.Doc
open Adeu Adeu.Markup

def dW : Str × Str := ("{--".toList, "--}".toList)
def iW : Str × Str := ("{++".toList, "++}".toList)
def hW : Str × Str := ("{==".toList, "==}".toList)
def nW : Str × Str := ([], [])


/-- the segment a buffered text with wrappers `wr` stands for -/
def segOf (wr : Str × Str) (t : Str) : Seg :=
  if wr = dW then .del t else if wr = iW then .ins t else if wr = hW then .hl t else .plain t


def noteSegs (m : Str) : List Seg := if m.isEmpty then [] else [.note m]


def gFlush (g : List Seg) (s : PSt) : List Seg :=
  if s.pending.isEmpty then g else g ++ [segOf s.wr s.pending]

def gPush (g : List Seg) (s : PSt) (nw : Str × Str) : List Seg :=
  if !s.pending.isEmpty && nw = s.wr then g else gFlush g s

/-- ghost output of `PSt.meta` (`s1` is the state after the push) -/
def gMeta (cm : CMap) (g : List Seg) (s1 : PSt) (rest : List Item) : List Seg :=
  let s2 := { s1 with deferred := s1.deferred ++ [{ ins := s1.ins, del := s1.del, comments := s1.comments }] }
  let redline := !s2.ins.isEmpty || !s2.del.isEmpty
  let defer := redline && nextIsRedline (!s2.ins.isEmpty) (!s2.del.isEmpty) rest
  if defer then g else gFlush g s2 ++ noteSegs (metaBlock cm s2.deferred)

def gStep (cm : CMap) (g : List Seg) (s : PSt) (item : Item) (rest : List Item) : List Seg :=
  match item with
  | .ev _ _ _ => gFlush g s
  | .run r _ =>
    let seg := applyFormatting (runText r) (runMarkers r).1 (runMarkers r).2
    if seg.isEmpty then g
    else
      let nw := wrappers s.ins s.del s.comments
      gMeta cm (gPush g s nw) (s.push seg nw) rest

def gLoop (cm : CMap) : List Seg → PSt → List Item → List Seg × PSt
  | g, s, [] => (g, s)
  | g, s, it :: rest => gLoop cm (gStep cm g s it rest) (paraStep false cm s it rest) rest

/-- the raw view of a paragraph as segments -/
def rawSegs (cm : CMap) (p : Para) : List Seg :=
  let gs := gLoop cm [] {} (items p)
  let g' := gFlush gs.1 gs.2
  if gs.2.deferred.isEmpty then g' else g' ++ noteSegs (metaBlock cm gs.2.deferred)


def gFinal (cm : CMap) (gs : List Seg × PSt) : List Seg :=
  let g' := gFlush gs.1 gs.2
  if gs.2.deferred.isEmpty then g' else g' ++ noteSegs (metaBlock cm gs.2.deferred)


inductive Tag | plain | del | ins | hl
deriving Repr, DecidableEq, Inhabited

def _root_.Adeu.Markup.Seg.tagged : Seg → List (Char × Tag)
  | .plain s => s.map (·, Tag.plain)
  | .del s => s.map (·, Tag.del)
  | .ins s => s.map (·, Tag.ins)
  | .hl s => s.map (·, Tag.hl)
  | .note _ => []

/-- the text characters of a segment list with the kind of block they stand in (metadata dropped) -/
def tagsOf (segs : List Seg) : List (Char × Tag) := segs.flatMap Seg.tagged


/-- what the marks that enclose a run say: deletion before insertion before comment range -/
def tagOf (i d : RevMap) (c : List Str) : Tag :=
  if !d.isEmpty then .del else if !i.isEmpty then .ins else if !c.isEmpty then .hl else .plain


/-- Specification of the raw view's text characters: walk the paragraph's content, keep the sets of
open insertions, deletions and comment ranges, and tag every character of every run's formatted
segment with what is open at that run. -/
def taggedSpec : RevMap → RevMap → List Str → List Item → List (Char × Tag)
  | _, _, _, [] => []
  | i, d, c, .run r _ :: rest =>
    (applyFormatting (runText r) (runMarkers r).1 (runMarkers r).2).map (·, tagOf i d c) ++ taggedSpec i d c rest
  | i, d, c, .ev ty id a :: rest =>
    match ty with
    | .start => taggedSpec i d (setAdd id c) rest
    | .end_ => taggedSpec i d (setDel id c) rest
    | .insStart => taggedSpec (revSet id a i) d c rest
    | .insEnd => taggedSpec (revDel id i) d c rest
    | .delStart => taggedSpec i (revSet id a d) c rest
    | .delEnd => taggedSpec i (revDel id d) c rest
    | .ref => taggedSpec i d c rest



/-! ### which marks the metadata blocks are built from -/

/-- ghost walk that records, per emitted metadata block, the snapshots it is built from -/
def nStep (groups : List (List Snap)) (s : PSt) (item : Item) (rest : List Item) : List (List Snap) :=
  match item with
  | .ev _ _ _ => groups
  | .run r _ =>
    let seg := applyFormatting (runText r) (runMarkers r).1 (runMarkers r).2
    if seg.isEmpty then groups
    else
      let deferred := s.deferred ++ [{ ins := s.ins, del := s.del, comments := s.comments }]
      let redline := !s.ins.isEmpty || !s.del.isEmpty
      let defer := redline && nextIsRedline (!s.ins.isEmpty) (!s.del.isEmpty) rest
      if defer then groups else groups ++ [deferred]

def nLoop (cm : CMap) : List (List Snap) → PSt → List Item → List (List Snap) × PSt
  | n, s, [] => (n, s)
  | n, s, it :: rest => nLoop cm (nStep n s it rest) (paraStep false cm s it rest) rest

def nFinal (ns : List (List Snap) × PSt) : List (List Snap) :=
  if ns.2.deferred.isEmpty then ns.1 else ns.1 ++ [ns.2.deferred]

/-- the snapshot groups behind the metadata blocks of a paragraph's raw view -/
def metaGroups (cm : CMap) (p : Para) : List (List Snap) := nFinal (nLoop cm [] {} (items p))

def noteOf : Seg → Option Str | .note s => some s | _ => none
/-- the contents of the metadata blocks of a segment list, in order -/
def notesOf (segs : List Seg) : List Str := segs.filterMap noteOf

/-- specification: one snapshot of the open marks per run that carries text, in document order -/
def snapSpec : RevMap → RevMap → List Str → List Item → List Snap
  | _, _, _, [] => []
  | i, d, c, .run r _ :: rest =>
    (if (applyFormatting (runText r) (runMarkers r).1 (runMarkers r).2).isEmpty then [] else [{ ins := i, del := d, comments := c }])
      ++ snapSpec i d c rest
  | i, d, c, .ev ty id a :: rest =>
    match ty with
    | .start => snapSpec i d (setAdd id c) rest
    | .end_ => snapSpec i d (setDel id c) rest
    | .insStart => snapSpec (revSet id a i) d c rest
    | .insEnd => snapSpec (revDel id i) d c rest
    | .delStart => snapSpec i (revSet id a d) c rest
    | .delEnd => snapSpec i (revDel id d) c rest
    | .ref => snapSpec i d c rest

/-! ### hypotheses of the document-level reading theorem (decidable, evaluated by the driver) -/

def braceFreeB (segs : List Seg) : Bool := segs.all fun sg => sg.content.all fun c => c != '{' && c != '}'

/- the hypothesis: no table (at any depth) is empty in the accepted view but not in the raw view, and the
   texts that end up in segments (run text, authors, comment texts) hold no brace -/
mutual
  def domBlocks (cm : CMap) : List Block → Bool
    | [] => true
    | .para p :: rest => braceFreeB (rawSegs cm p) && domBlocks cm rest
    | .table _ _ rows :: rest =>
      (!(tableText true cm rows).isEmpty || (tableText false cm rows).isEmpty) && domRows cm rows && domBlocks cm rest
    | .other _ :: rest => domBlocks cm rest
  def domRows (cm : CMap) : List Row → Bool
    | [] => true
    | .mk _ cells :: rest => domCells cm cells && domRows cm rest
  def domCells (cm : CMap) : List Cell → Bool
    | [] => true
    | .mk _ _ _ blocks :: rest => domBlocks cm blocks && domCells cm rest
end


/-- document-level hypothesis: tables as above, and no story (header / body / footer) is empty in the
accepted view but not in the raw view -/
def domDoc (d : Document) : Bool :=
  (docParts d).all fun bs =>
    domBlocks (commentsMap d) bs &&
      (!(containerText true (commentsMap d) bs).isEmpty || (containerText false (commentsMap d) bs).isEmpty)


end Adeu.Doc
