import AdeuModel.Model.Engine
/-
Histories of sessions on one document (C07): load, one operation, save, reload, … .
Each step opens a new session on the document as the previous step left it (`Sess.open` normalises
and scans the ids, as a reload does).
-/
namespace Adeu.Doc
open Adeu

inductive Step
  | edits (author : Str) (es : List IEdit)
  | actions (author : Str) (acts : List Action)
  | acceptAll
deriving Inhabited

def sessionDate : Str := "DATE".toList

/-- number of requests of a step -/
def Step.requests : Step → Nat
  | .edits _ es => es.length
  | .actions _ acts => acts.length
  | .acceptAll => 0

/-- one step: (document after save, applied, skipped) -/
def stepDoc (d : Document) : Step → Document × Nat × Nat
  | .edits a es => let r := applyEditsIndexed (Sess.open d a sessionDate) es; (r.1.doc, r.2.1, r.2.2)
  | .actions a acts => let r := (Sess.open d a sessionDate).applyActions acts; (r.1.doc, r.2.1, r.2.2)
  | .acceptAll => ((Sess.open d [] sessionDate).acceptAllRevisions.doc, 0, 0)

/-- the whole history: final document and the counts reported by every step -/
def runHistory (d : Document) : List Step → Document × List (Nat × Nat)
  | [] => (d, [])
  | st :: rest =>
      let r := stepDoc d st
      let h := runHistory r.1 rest
      (h.1, (r.2.1, r.2.2) :: h.2)

/-- the documents a history goes through (before every step, and the last one) -/
def reached (d : Document) : List Step → List Document
  | [] => [d]
  | st :: rest => d :: reached (stepDoc d st).1 rest

end Adeu.Doc
