import AdeuModel.Model.Str
import AdeuModel.Model.WordTable
/-
Model of `adeu.markup.apply_edits_to_markdown` (the CriticMarkup preview).

Modelled line by line: exact and smart-quote matching stages, `_find_safe_boundaries`,
`_refine_match_boundaries`, `_should_strip_markers`, `_strip_balanced_markers`,
`_build_critic_markup`, the overlap filter in submission order, the descending sort and the
right-to-left splicing.  Parameter: the span found by the fuzzy regular expression
(`re.search(_make_fuzzy_regex(target), text)`), recorded per edit from the real code (`fz`).
-/
namespace Adeu.Markup
open Adeu

/-! ### string helpers (Python `str` methods) -/

/-- `s.find(pat)` searched from offset `i` on -/
def findFrom (pat : Str) : Str → Nat → Option Nat
  | [], i => if pat.isEmpty then some i else none
  | c :: s, i => if pat.isPrefixOf (c :: s) then some i else findFrom pat s (i + 1)

def find (pat s : Str) : Option Nat := findFrom pat s 0

def containsSub (pat s : Str) : Bool := (find pat s).isSome

/-- `s.count(pat)` for a non-empty `pat`: non-overlapping occurrences, left to right -/
def countFuel : Nat → Str → Str → Nat
  | 0, _, _ => 0
  | _ + 1, _, [] => 0
  | n + 1, pat, c :: r =>
      if pat.isPrefixOf (c :: r) then 1 + countFuel n pat ((c :: r).drop pat.length)
      else countFuel n pat r

def count (pat s : Str) : Nat := if pat.isEmpty then s.length + 1 else countFuel s.length pat s

def slice (s : Str) (a b : Nat) : Str := (s.drop a).take (b - a)

def smartChar (c : Char) : Char :=
  if c == '“' || c == '”' then '"' else if c == '‘' || c == '’' then '\'' else c

/-- `_replace_smart_quotes` -/
def replaceSmart (s : Str) : Str := s.map smartChar

def isAsciiLetter (c : Char) : Bool := ('a' ≤ c && c ≤ 'z') || ('A' ≤ c && c ≤ 'Z')
def isDigitOrUnderscore (c : Char) : Bool := ('0' ≤ c && c ≤ '9') || c == '_'

def mBold : Str := ['*', '*']
def mUU : Str := ['_', '_']
def mU : Str := ['_']
def mStar : Str := ['*']

/-! ### marker hoisting -/

/-- `_should_strip_markers` -/
def shouldStrip (text marker : Str) : Bool :=
  marker.isPrefixOf text && marker.isSuffixOf text && decide (text.length ≥ 2 * marker.length) &&
  (let inner := slice text marker.length (text.length - marker.length)
   !inner.isEmpty && !containsSub marker inner && inner.any isAsciiLetter &&
   !(marker == mUU && inner.all pyIsWord) &&
   !(marker == mU && (inner.contains '_' || inner.all isDigitOrUnderscore)))

/-- `_strip_balanced_markers`: (prefix markup, clean text, suffix markup) -/
def stripBalanced (text : Str) : Str × Str × Str :=
  match [mBold, mUU, mU, mStar].find? (shouldStrip text) with
  | some m => (m, slice text m.length (text.length - m.length), m)
  | none => ([], text, [])

/-! ### boundaries -/

/-- `expand_if_unbalanced(marker)` -/
def expand (text marker : Str) (se : Nat × Nat) : Nat × Nat :=
  if count marker (slice text se.1 se.2) % 2 != 0 then
    if marker.isPrefixOf (text.drop se.2) then (se.1, se.2 + marker.length)
    else if marker.isSuffixOf (text.take se.1) then (se.1 - marker.length, se.2)
    else se
  else se

def expandRound (text : Str) (se : Nat × Nat) : Nat × Nat :=
  expand text mStar (expand text mU (expand text mUU (expand text mBold se)))

/-- `_find_safe_boundaries` -/
def safeBounds (text : Str) (s e : Nat) : Nat × Nat := expandRound text (expandRound text (s, e))

/-- one leading-noise step of `_refine_match_boundaries`: state = (current text, start) -/
def trimLead (st : Str × Nat) (marker : Str) : Str × Nat :=
  if marker.isPrefixOf st.1 && count marker st.1 % 2 == 1 && count marker (st.1.drop marker.length) % 2 == 0
  then (st.1.drop marker.length, st.2 + marker.length) else st

/-- one trailing-noise step: state = (current text, end) -/
def trimTrail (st : Str × Nat) (marker : Str) : Str × Nat :=
  if marker.isSuffixOf st.1 && count marker st.1 % 2 == 1 &&
      count marker (st.1.take (st.1.length - marker.length)) % 2 == 0
  then (st.1.take (st.1.length - marker.length), st.2 - marker.length) else st

/-- `_refine_match_boundaries` -/
def refine (text : Str) (s e : Nat) : Nat × Nat :=
  let l := [mBold, mUU, mStar, mU].foldl trimLead (slice text s e, s)
  let t := [mBold, mUU, mStar, mU].foldl trimTrail (l.1, e)
  (l.2, t.2)

/-- `_find_match_in_text`; `fz` = span of the fuzzy regular expression (parameter) -/
def findMatch (text target : Str) (fz : Option (Nat × Nat)) : Option (Nat × Nat) :=
  if target.isEmpty then none
  else match find target text with
    | some i => some (safeBounds text i (i + target.length))
    | none =>
      match find (replaceSmart target) (replaceSmart text) with
      | some i => some (safeBounds text i (i + target.length))
      | none =>
        match fz with
        | some (a, b) => let r := refine text a b; some (safeBounds text r.1 r.2)
        | none => none

/-! ### CriticMarkup segments (flat by construction) -/

inductive Seg
  | plain (s : Str) | del (s : Str) | ins (s : Str) | hl (s : Str) | note (s : Str)
deriving Repr, DecidableEq, Inhabited

def Seg.render : Seg → Str
  | .plain s => s
  | .del s => "{--".toList ++ s ++ "--}".toList
  | .ins s => "{++".toList ++ s ++ "++}".toList
  | .hl s => "{==".toList ++ s ++ "==}".toList
  | .note s => "{>>".toList ++ s ++ "<<}".toList

def render (segs : List Seg) : Str := (segs.map Seg.render).flatten

/-- reading with every suggestion rejected -/
def Seg.rejected : Seg → Str
  | .plain s => s | .del s => s | .hl s => s | .ins _ => [] | .note _ => []

/-- reading with every suggestion accepted -/
def Seg.accepted : Seg → Str
  | .plain s => s | .ins s => s | .hl s => s | .del _ => [] | .note _ => []

def rejectView (segs : List Seg) : Str := (segs.map Seg.rejected).flatten
def acceptView (segs : List Seg) : Str := (segs.map Seg.accepted).flatten

structure Opts where
  includeIndex : Bool
  highlightOnly : Bool
deriving Repr, Inhabited

structure MEdit where
  target : Str
  new : Str
  comment : Str               -- `None` and `""` behave alike
  fz : Option (Nat × Nat)     -- parameter: span of the fuzzy regular expression for this target
deriving Repr, Inhabited

def metaSegs (comment : Str) (idx : Nat) (o : Opts) : List Seg :=
  let parts : List Str := (if comment.isEmpty then [] else [comment]) ++
    (if o.includeIndex then ["[Edit:".toList ++ (toString idx).toList ++ "]".toList] else [])
  if parts.isEmpty then [] else [.note (" ".toList.intercalate parts)]

/-- `_build_critic_markup` -/
def buildMarkup (actual new comment : Str) (idx : Nat) (o : Opts) : List Seg :=
  let st := stripBalanced actual
  let k := st.1.length
  let same := decide (new.length > 2 * k) && st.1.isPrefixOf new && st.2.2.isSuffixOf new
  let q : Str × Str × Str × Str :=
    if !st.1.isEmpty && !o.highlightOnly then
      if same then (st.1, st.2.1, st.2.2, slice new k (new.length - k)) else ([], actual, [], new)
    else (st.1, st.2.1, st.2.2, new)
  let body : List Seg :=
    if o.highlightOnly then [.hl q.2.1]
    else (if q.2.1.isEmpty then [] else [.del q.2.1]) ++ (if q.2.2.2.isEmpty then [] else [.ins q.2.2.2])
  [.plain q.1] ++ body ++ [.plain q.2.2.1] ++ metaSegs comment idx o

/-! ### the pipeline -/

structure Match where
  s : Nat
  e : Nat
  idx : Nat
deriving Repr, DecidableEq, Inhabited

/-- Step 1: matched edits in submission order -/
def matchesFrom (text : Str) : List MEdit → Nat → List Match
  | [], _ => []
  | ed :: rest, idx =>
      (match findMatch text ed.target ed.fz with
       | some (s, e) => if s ≥ e then [] else [⟨s, e, idx⟩]
       | none => []) ++ matchesFrom text rest (idx + 1)

def overlaps (occ : List Match) (m : Match) : Bool := occ.any fun o => m.s < o.e && m.e > o.s

/-- Step 2: the overlap filter (first come, first served) -/
def filterOverlap : List Match → List Match → List Match
  | [], occ => occ
  | m :: ms, occ => if overlaps occ m then filterOverlap ms occ else filterOverlap ms (occ ++ [m])

/-- Steps 1–3: kept matches, by start descending (stable) -/
def keptDesc (text : Str) (edits : List MEdit) : List Match :=
  (filterOverlap (matchesFrom text edits 0) []).mergeSort fun a b => a.s ≥ b.s

def markupOf (text : Str) (edits : List MEdit) (o : Opts) (m : Match) : List Seg :=
  let ed := edits[m.idx]?.getD default
  buildMarkup (slice text m.s m.e) ed.new ed.comment m.idx o

/-- Step 4 as the code does it: splice the rendered markup into the string, right to left -/
def previewStr (text : Str) (edits : List MEdit) (o : Opts) : Str :=
  (keptDesc text edits).foldl
    (fun result m => result.take m.s ++ render (markupOf text edits o m) ++ result.drop m.e) text

/-- The same preview as a flat list of segments: `acc.1` = length of the still untouched prefix -/
def segStep (text : Str) (edits : List MEdit) (o : Opts) (acc : Nat × List Seg) (m : Match) : Nat × List Seg :=
  (m.s, markupOf text edits o m ++ Seg.plain (slice text m.e acc.1) :: acc.2)

def previewSegs (text : Str) (edits : List MEdit) (o : Opts) : List Seg :=
  let r := (keptDesc text edits).foldl (segStep text edits o) (text.length, [])
  Seg.plain (text.take r.1) :: r.2

end Adeu.Markup

/-! ### reading CriticMarkup back (the reader behind "reading the preview with every suggestion
accepted / rejected") -/
namespace Adeu.Markup
open Adeu

def openers : List (Str × Str × (Str → Seg)) :=
  [("{--".toList, "--}".toList, Seg.del), ("{++".toList, "++}".toList, Seg.ins),
   ("{==".toList, "==}".toList, Seg.hl), ("{>>".toList, "<<}".toList, Seg.note)]

/-- split at the first occurrence of `pat`: (text before it, text after it) -/
def splitAtFirst (pat : Str) : Str → Option (Str × Str)
  | [] => if pat.isEmpty then some ([], []) else none
  | c :: s =>
      if pat.isPrefixOf (c :: s) then some ([], (c :: s).drop pat.length)
      else (splitAtFirst pat s).map fun ab => (c :: ab.1, ab.2)

def flushPlain (acc : Str) : List Seg := if acc.isEmpty then [] else [.plain acc]

/-- scan left to right: an opener starts a block that runs to the first matching closer; everything
else is plain text (`acc` collects it).  `none`: an opener without its closer. -/
def parseFuel : Nat → Str → Str → Option (List Seg)
  | 0, acc, r => if r.isEmpty then some (flushPlain acc) else none
  | _ + 1, acc, [] => some (flushPlain acc)
  | n + 1, acc, c :: r =>
      match openers.find? (fun o => o.1.isPrefixOf (c :: r)) with
      | some o =>
          match splitAtFirst o.2.1 ((c :: r).drop 3) with
          | some ir => (parseFuel n [] ir.2).map fun segs => flushPlain acc ++ o.2.2 ir.1 :: segs
          | none => none
      | none => parseFuel n (acc ++ [c]) r

def parse (s : Str) : Option (List Seg) := parseFuel s.length [] s

/-- the segment list a reader sees: adjacent plain pieces joined, empty ones dropped -/
def normAcc : Str → List Seg → List Seg
  | acc, [] => flushPlain acc
  | acc, .plain s :: rest => normAcc (acc ++ s) rest
  | acc, x :: rest => flushPlain acc ++ x :: normAcc [] rest

def Seg.content : Seg → Str
  | .plain s => s | .del s => s | .ins s => s | .hl s => s | .note s => s

/-- no segment contains a brace (texts, targets, new texts and comments without CriticMarkup delimiters) -/
def BraceFree (segs : List Seg) : Prop := ∀ sg ∈ segs, ∀ c ∈ sg.content, c ≠ '{' ∧ c ≠ '}'

end Adeu.Markup
