import AdeuModel.Model.Str
import AdeuModel.Model.Trim
/-
Layer D — the abstract document (tree form, mirrors the OOXML that adeu looks at) and the
python-docx semantics that adeu relies on (run text, bold/italic tri-state, style names,
`row.cells`, `paragraph.text`).
-/
namespace Adeu.Doc
open Adeu

inductive FldTy | begin | separate | end_ | unknown
deriving Repr, DecidableEq, Inhabited

inductive Atom
  | t (s : Str) | dt (s : Str) | tab | br | cr | nbh
  | brT (ty : Str)   -- `w:br` with a `w:type` (page / column / textWrapping)
  | cref (id : Str) | fld (ty : FldTy) | instr (s : Str) | other (xml : Str)
deriving Repr, DecidableEq, Inhabited

/-- `b`/`i`: `none` = element absent, `some []` = present without `w:val`, else the value. -/
structure Run where
  b : Option Str
  i : Option Str
  rest : Str
  ch : List Atom
  emptyRPr : Bool := false
deriving Repr, DecidableEq, Inhabited

structure Rev where
  id : Str
  author : Option Str
  date : Option Str
deriving Repr, DecidableEq, Inhabited

inductive InsChild
  | run (r : Run) | cs (id : Str) | ce (id : Str) | other (xml : Str)
deriving Repr, DecidableEq, Inhabited

inductive Node
  | run (r : Run)
  | ins (rev : Rev) (ch : List InsChild)
  | del (rev : Rev) (runs : List Run)
  | cs (id : Str) | ce (id : Str)
  | proof (ty : Str)
  | hl (attrs : Str) (runs : List Run)
  | other (xml : Str)
deriving Repr, DecidableEq, Inhabited

structure Para where
  style : Option Str
  ppr : Str
  nodes : List Node
  paraId : Option Str := none
deriving Repr, DecidableEq, Inhabited

inductive VM | none | restart | continue_
deriving Repr, DecidableEq, Inhabited

mutual
  inductive Block
    | para (p : Para)
    | table (pr grid : Str) (rows : List Row)
    | other (xml : Str)
  inductive Row
    | mk (pr : Str) (cells : List Cell)
  inductive Cell
    | mk (pr : Str) (span : Nat) (vm : VM) (blocks : List Block)
end

instance : Inhabited Block := ⟨.other []⟩
instance : Inhabited Cell := ⟨.mk [] 1 .none []⟩
instance : Inhabited Row := ⟨.mk [] []⟩

structure Story where
  ty : Str            -- default | first | even
  blocks : List Block
deriving Inhabited

structure CPara where
  paraId : Option Str
  text : List Str
deriving Repr, DecidableEq, Inhabited

structure Comment where
  id : Str
  author : Option Str
  date : Option Str
  initials : Option Str
  paras : List CPara
  legacyParent : Option Str
  doneAttr : Option Str
deriving Repr, DecidableEq, Inhabited

structure CommentEx where
  paraId : Option Str
  parent : Option Str
  done : Option Str
deriving Repr, DecidableEq, Inhabited

structure Document where
  headers : List Story
  body : List Block
  footers : List Story
  titlePg : Bool
  evenOdd : Bool
  comments : List Comment
  commentsEx : List CommentEx
  hasExtended : Bool
  commentsIds : List (Str × Str) := []      -- (paraId, durableId)
  commentsCex : List (Str × Str) := []      -- (durableId, dateUtc)
deriving Inhabited

/-! ### python-docx semantics -/

/-- `run.bold` / `run.italic` truthiness (ST_OnOff). -/
def onOffTrue : Option Str → Bool
  | none => false
  | some v => v = [] || v = "1".toList || v = "true".toList || v = "on".toList

/-- `get_run_text`: `w:t`/`w:delText` with literal tabs as spaces, `w:tab` → space, `w:br`/`w:cr` → newline. -/
def atomText : Atom → Str
  | .t s | .dt s => s.map fun c => if c = '\t' then ' ' else c
  | .tab => [' ']
  | .br | .cr | .brT _ => ['\n']
  | _ => []

def runText (r : Run) : Str := r.ch.flatMap atomText

/-- python-docx `run.text` (what `paragraph.text` and `_split_run_at_index` see): `w:delText` is
not included, a tab is `\t`, a no-break hyphen is `-`. -/
def atomDocxText : Atom → Str
  | .t s => s
  | .tab => ['\t']
  | .br | .cr => ['\n']
  | .brT ty => if ty = "textWrapping".toList then ['\n'] else []   -- python-docx: page / column breaks give ""
  | .nbh => ['-']
  | _ => []

def runDocxText (r : Run) : Str := r.ch.flatMap atomDocxText

/-- `get_run_style_markers` -/
def runMarkers (r : Run) : Str × Str :=
  let b := onOffTrue r.b
  let i := onOffTrue r.i
  ((if b then ['*', '*'] else []) ++ (if i then ['_'] else []),
   (if i then ['_'] else []) ++ (if b then ['*', '*'] else []))

/-- `str.split("\n")` -/
def splitNl : Str → List Str
  | [] => [[]]
  | c :: r =>
    match splitNl r with
    | [] => [[]]          -- unreachable
    | h :: t => if c = '\n' then [] :: h :: t else (c :: h) :: t

def joinWith (sep : Str) : List Str → Str
  | [] => []
  | [x] => x
  | x :: r => x ++ sep ++ joinWith sep r

/-- `apply_formatting_to_segments` -/
def applyFormatting (text pre suf : Str) : Str :=
  if pre.isEmpty && suf.isEmpty then text
  else if text.isEmpty then []
  else if !text.contains '\n' then pre ++ text ++ suf
  else joinWith ['\n'] ((splitNl text).map fun p => if p.isEmpty then [] else pre ++ p ++ suf)

/-- style id → style name for the style sheet the harness writes (python-docx default template);
unknown ids fall back to the default paragraph style. -/
def styleName (sid : Option Str) : Str :=
  match sid with
  | none => "Normal".toList
  | some s =>
    if s = "Title".toList then "Title".toList
    else if s = "ListParagraph".toList then "List Paragraph".toList
    else if s.take 7 = "Heading".toList ∧ s.length = 8 ∧ (s.drop 7).all (fun c => '1' ≤ c ∧ c ≤ '9') then
      "Heading ".toList ++ s.drop 7
    else "Normal".toList

def stripStr (sp : Char → Bool) (s : Str) : Str :=
  ((s.dropWhile sp).reverse.dropWhile sp).reverse

/-- `str.isupper()` for ASCII-cased text (the generator's alphabet): at least one cased character
and no lowercase one. -/
def isUpperStr (s : Str) : Bool := s.any Char.isUpper && !s.any Char.isLower

/-- python-docx `paragraph.text`: direct runs and hyperlink runs. -/
def paraDocxText (p : Para) : Str :=
  p.nodes.flatMap fun
    | .run r => runDocxText r
    | .hl _ rs => rs.flatMap runDocxText
    | _ => []

/-- `paragraph.runs`: direct `w:r` children. -/
def directRuns (p : Para) : List Run :=
  p.nodes.filterMap fun | .run r => some r | _ => none

def allDigits (s : Str) : Bool := !s.isEmpty && s.all Char.isDigit

def strToNat (s : Str) : Nat := s.foldl (fun n c => n * 10 + (c.toNat - 48)) 0

/-- `get_paragraph_prefix` (the outline-level branch is dead with python-docx 1.2). -/
def paraPrefix (p : Para) : Str :=
  let sn := styleName p.style
  let heading : Option Str :=
    if sn.take 7 = "Heading".toList then
      let rest := stripStr Trim.pyIsSpace (sn.drop 7)
      if allDigits rest then some (List.replicate (strToNat rest) '#' ++ [' ']) else none
    else none
  match heading with
  | some h => h
  | none =>
    if sn = "Title".toList then ['#', ' ']
    else if sn = "Normal".toList then
      let text := stripStr Trim.pyIsSpace (paraDocxText p)
      if !text.isEmpty && text.length < 100 then
        let caps := isUpperStr text
        let firstBold :=
          match (directRuns p).filter (fun r => !(stripStr Trim.pyIsSpace (runDocxText r)).isEmpty) with
          | r :: _ => onOffTrue r.b
          | [] => false
        if caps && firstBold then ['#', '#', ' '] else []
      else []
    else []

/-! ### `iter_paragraph_content` -/

inductive EvTy | start | end_ | ref | insStart | insEnd | delStart | delEnd
deriving Repr, DecidableEq, Inhabited

/-- Location of a run inside its paragraph: node index and, inside `w:ins`/`w:del`, child index. -/
structure Loc where
  node : Nat
  sub : Option Nat
deriving Repr, DecidableEq, Inhabited

inductive Item
  | run (r : Run) (loc : Loc)
  | ev (ty : EvTy) (id : Str) (author : Option Str)
deriving Repr, DecidableEq, Inhabited

structure FieldSt where
  inField : Bool := false
  instr : Str := []
  hide : Bool := false
deriving Repr, DecidableEq, Inhabited

def upperAscii (c : Char) : Char := if 'a' ≤ c ∧ c ≤ 'z' then Char.ofNat (c.toNat - 32) else c

/-- `_is_page_instr` -/
def isPageInstr (instr : Str) : Bool :=
  let u := stripStr Trim.pyIsSpace (instr.map upperAscii)
  let first := u.takeWhile fun c => !Trim.pyIsSpace c
  first = "PAGE".toList || first = "NUMPAGES".toList

def fieldStep (st : FieldSt) : Atom → FieldSt
  | .fld .begin => { st with inField := true, instr := [] }
  | .fld .separate => if isPageInstr st.instr then { st with hide := true } else st
  | .fld .end_ => { inField := false, instr := [], hide := false }
  | _ => st

/-- `process_run_element`: reference events, field state, then the run unless hidden. -/
def processRun (st : FieldSt) (r : Run) (loc : Loc) : FieldSt × List Item :=
  let refs := r.ch.filterMap fun | .cref id => if id.isEmpty then none else some (Item.ev .ref id none) | _ => none
  let st1 := r.ch.foldl fieldStep st
  let st2 := if st1.inField && !st1.hide then
      { st1 with instr := st1.instr ++ r.ch.flatMap fun | .instr s => s | _ => [] }
    else st1
  (st2, refs ++ (if st2.hide then [] else [Item.run r loc]))

def insItems (st : FieldSt) (ni : Nat) : List InsChild → Nat → FieldSt × List Item
  | [], _ => (st, [])
  | c :: rest, k =>
    match c with
    | .run r =>
      let (st1, is1) := processRun st r ⟨ni, some k⟩
      let (st2, is2) := insItems st1 ni rest (k + 1)
      (st2, is1 ++ is2)
    | .cs id => let (st2, is2) := insItems st ni rest (k + 1); (st2, Item.ev .start id none :: is2)
    | .ce id => let (st2, is2) := insItems st ni rest (k + 1); (st2, Item.ev .end_ id none :: is2)
    | .other _ => insItems st ni rest (k + 1)

def nodeItems (st : FieldSt) (ni : Nat) : Node → FieldSt × List Item
  | .run r => processRun st r ⟨ni, none⟩
  | .ins rev ch =>
    let (st1, is1) := insItems st ni ch 0
    (st1, Item.ev .insStart rev.id rev.author :: is1 ++ [Item.ev .insEnd rev.id none])
  | .del rev runs =>
    (st, Item.ev .delStart rev.id rev.author ::
      (runs.zipIdx.map fun (r, k) => Item.run r ⟨ni, some k⟩) ++ [Item.ev .delEnd rev.id none])
  | .cs id => (st, [Item.ev .start id none])
  | .ce id => (st, [Item.ev .end_ id none])
  | _ => (st, [])

def itemsFrom (st : FieldSt) : List Node → Nat → List Item
  | [], _ => []
  | n :: rest, ni =>
    let (st1, is1) := nodeItems st ni n
    is1 ++ itemsFrom st1 rest (ni + 1)

def items (p : Para) : List Item := itemsFrom {} p.nodes 0

end Adeu.Doc
