import AdeuModel.Model.Normalize
/-
Layer D — the writer's index: `adeu.redline.mapper.DocumentMapper._build_map` (after the repair
that makes it mirror the reader).  A span is a piece of the indexed text; real spans point at the
run that carries the characters, virtual spans (prefixes, markers, wrappers, metadata, separators)
point at nothing.  Offsets are prefix sums of the span texts.
-/
namespace Adeu.Doc
open Adeu

/-- address of a paragraph: part index, then block / row / cell indices down to the paragraph -/
abbrev PPath := List Nat

structure RunRef where
  para : PPath
  loc : Loc
deriving Repr, DecidableEq, Inhabited

structure Span where
  text : Str
  run : Option RunRef := none
  insId : Option Str := none
  delId : Option Str := none
  para : Option PPath := none
deriving Repr, DecidableEq, Inhabited

def spansText (ss : List Span) : Str := ss.flatMap (·.text)

/-- a piece of a run waiting in `pending_runs` -/
structure Piece where
  real : Bool
  text : Str
  run : Option RunRef
  insId : Option Str
  delId : Option Str
deriving Repr, DecidableEq, Inhabited

structure MSt where
  out : List Span := []
  insEv : Option (Str × Option Str) := none      -- active_ins_event: id, author
  delEv : Option (Str × Option Str) := none
  comments : List Str := []
  deferred : List Snap := []
  pending : List Piece := []
  wr : Str × Str := ([], [])
deriving Repr, Inhabited

def virt (pp : PPath) (t : Str) : List Span := if t.isEmpty then [] else [{ text := t, para := some pp }]

def pieceSpan (pp : PPath) (p : Piece) : Span :=
  if p.real then { text := p.text, run := p.run, insId := p.insId, delId := p.delId, para := some pp }
  else { text := p.text, para := some pp }

def MSt.flush (pp : PPath) (s : MSt) : MSt :=
  if s.pending.isEmpty then s
  else { s with out := s.out ++ virt pp s.wr.1 ++ s.pending.map (pieceSpan pp) ++ virt pp s.wr.2,
                pending := [], wr := ([], []) }

def evMap (e : Option (Str × Option Str)) : RevMap := match e with | some p => [p] | none => []

/-- `run_parts` of one run -/
def runPieces (r : Run) (ref : RunRef) (insId delId : Option Str) : List Piece :=
  let (pre, suf) := runMarkers r
  let text := runText r
  let v (t : Str) : List Piece := if t.isEmpty then [] else [⟨false, t, none, insId, delId⟩]
  let re (t : Str) : List Piece := [⟨true, t, some ref, insId, delId⟩]
  if text.contains '\n' && !(pre.isEmpty && suf.isEmpty) then
    let parts := splitNl text
    (parts.zipIdx.flatMap fun (part, idx) =>
      (if idx > 0 then re ['\n'] else []) ++ (if part.isEmpty then [] else v pre ++ re part ++ v suf))
  else v pre ++ (if text.isEmpty then [] else re text) ++ v suf

def mApplyEv (s : MSt) (ty : EvTy) (id : Str) (author : Option Str) : MSt :=
  match ty with
  | .start => { s with comments := setAdd id s.comments }
  | .end_ => { s with comments := setDel id s.comments }
  | .insStart => { s with insEv := some (id, author) }
  | .insEnd => { s with insEv := none }
  | .delStart => { s with delEv := some (id, author) }
  | .delEnd => { s with delEv := none }
  | .ref => s

def MSt.push (pp : PPath) (s : MSt) (pieces : List Piece) (nw : Str × Str) : MSt :=
  if !s.pending.isEmpty && nw = s.wr then { s with pending := s.pending ++ pieces }
  else
    let s0 := if s.pending.isEmpty then s
      else { s with out := s.out ++ virt pp s.wr.1 ++ s.pending.map (pieceSpan pp) ++ virt pp s.wr.2 }
    { s0 with pending := pieces, wr := nw }

def MSt.meta (cm : CMap) (pp : PPath) (s1 : MSt) (rest : List Item) : MSt :=
  let s2 := { s1 with deferred := s1.deferred ++ [{ ins := evMap s1.insEv, del := evMap s1.delEv, comments := s1.comments }] }
  let redline := s2.insEv.isSome || s2.delEv.isSome
  let defer := redline && nextIsRedline s2.insEv.isSome s2.delEv.isSome rest
  if defer then s2
  else
    let s3 := s2.flush pp
    { s3 with out := s3.out ++ virt pp (metaWrap (metaBlock cm s3.deferred)), deferred := [] }

/-- `_map_paragraph_content`, one item at a time -/
def mapStep (clean : Bool) (cm : CMap) (pp : PPath) (s : MSt) (item : Item) (rest : List Item) : MSt :=
  match item with
  | .ev ty id author => mApplyEv (s.flush pp) ty id author
  | .run r loc =>
    if (runText r).isEmpty then s
    else
      let insId := s.insEv.map (·.1)
      let delId := s.delEv.map (·.1)
      let pieces := runPieces r ⟨pp, loc⟩ insId delId
      let s1 : MSt :=
        if clean && delId.isSome then s
        else s.push pp pieces (if clean then ([], []) else wrappers (evMap s.insEv) (evMap s.delEv) s.comments)
      if clean then s1 else s1.meta cm pp rest

def mapLoop (clean : Bool) (cm : CMap) (pp : PPath) : MSt → List Item → MSt
  | s, [] => s
  | s, it :: rest => mapLoop clean cm pp (mapStep clean cm pp s it rest) rest

def paraSpans (clean : Bool) (cm : CMap) (pp : PPath) (p : Para) : List Span :=
  let s := (mapLoop clean cm pp {} (items p)).flush pp
  if s.deferred.isEmpty then s.out else s.out ++ virt pp (metaWrap (metaBlock cm s.deferred))

def sepSpan (t : Str) (pp : Option PPath) : Span := { text := t, para := pp }

/-- parts joined by a separator span -/
def joinSpans (sep : Span) : List (List Span) → List Span
  | [] => []
  | [x] => x
  | x :: r => x ++ [sep] ++ joinSpans sep r

mutual
  /-- `_map_blocks`: `emitted` = number of blocks emitted so far in this container -/
  def blocksSpans (clean : Bool) (cm : CMap) (pp : PPath) : List Block → Nat → Nat → List Span
    | [], _, _ => []
    | .para p :: rest, bi, emitted =>
      let here := pp ++ [bi]
      (if emitted > 0 then [sepSpan ['\n', '\n'] (some here)] else []) ++
        virt here (paraPrefix p) ++ paraSpans clean cm here p ++ blocksSpans clean cm pp rest (bi + 1) (emitted + 1)
    | .table _ _ rows :: rest, bi, emitted =>
      let t := tableSpans clean cm (pp ++ [bi]) rows
      if (spansText t).isEmpty then blocksSpans clean cm pp rest (bi + 1) emitted
      else (if emitted > 0 then [sepSpan ['\n', '\n'] none] else []) ++ t ++ blocksSpans clean cm pp rest (bi + 1) (emitted + 1)
    | .other _ :: rest, bi, emitted => blocksSpans clean cm pp rest (bi + 1) emitted
  def rowsCellSpans (clean : Bool) (cm : CMap) (pp : PPath) : List Row → Nat → List (List (List Span))
    | [], _ => []
    | .mk _ cells :: rest, ri => cellsSpans clean cm (pp ++ [ri]) cells 0 :: rowsCellSpans clean cm pp rest (ri + 1)
  def cellsSpans (clean : Bool) (cm : CMap) (pp : PPath) : List Cell → Nat → List (List Span)
    | [], _ => []
    | .mk _ _ _ blocks :: rest, ci => blocksSpans clean cm (pp ++ [ci]) blocks 0 0 :: cellsSpans clean cm pp rest (ci + 1)
  /-- `_map_table` -/
  def tableSpans (clean : Bool) (cm : CMap) (pp : PPath) (rows : List Row) : List Span :=
    let cellSp := rowsCellSpans clean cm pp rows 0
    let cellsOf := rows.map Row.cells
    joinSpans (sepSpan ['\n'] none) ((List.range rows.length).map fun ri =>
      joinSpans (sepSpan " | ".toList none)
        ((rowContentCells cellsOf ri).map fun (r, c) => ((cellSp[r]?).getD [])[c]?.getD []))
end

/-- `_build_map` with the comment data the mapper holds (extracted once, when the mapper is constructed) -/
def buildSpansWith (cm : CMap) (clean : Bool) (d : Document) : List Span :=
  let rec go : List (List Block) → Nat → Nat → List Span
    | [], _, _ => []
    | part :: rest, pi, emitted =>
      let sp := blocksSpans clean cm [pi] part 0 0
      if (spansText sp).isEmpty then go rest (pi + 1) emitted
      else (if emitted > 0 then [sepSpan ['\n', '\n'] none] else []) ++ sp ++ go rest (pi + 1) (emitted + 1)
  go (docParts d) 0 0

/-- `_build_map` of a mapper constructed on this document -/
def buildSpans (clean : Bool) (d : Document) : List Span := buildSpansWith (commentsMap d) clean d

def mapperText (clean : Bool) (d : Document) : Str := spansText (buildSpans clean d)

end Adeu.Doc
