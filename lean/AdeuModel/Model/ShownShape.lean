import AdeuModel.Model.Engine
import AdeuModel.Model.ExtractSegs
/-
Executable side of the C10 "shown with the change" theorems: finds, in a document the engine model produced,
the paragraph shapes those theorems speak about, evaluates their hypotheses and their conclusion (driver output:
hypothesis hit counts on real batches).
-/
namespace Adeu.Doc
open Adeu

def isT : Atom → Bool | .t _ => true | _ => false

/-- field state after a list of nodes -/
def stAfter (st : FieldSt) : List Node → Nat → FieldSt
  | [], _ => st
  | n :: rest, ni => stAfter (nodeItems st ni n).1 rest (ni + 1)

def segNonEmpty (r : Run) : Bool := !(applyFormatting (runText r) (runMarkers r).1 (runMarkers r).2).isEmpty

/-- (comment id, revision id, the revision is a deletion) when the nodes start with one of the three shapes and the
run-level hypotheses of the theorem hold -/
def shownShapeAt : List Node → Option (Str × Str × Bool)
  | .cs cid :: .ins rev [.run r] :: .ce cid' :: .run cr :: _ =>
    if cid = cid' && cr = crefRun cid && r.ch.all isT && segNonEmpty r then some (cid, rev.id, false) else none
  | .cs cid :: .del rev [r] :: .ce cid' :: .run cr :: _ =>
    if cid = cid' && cr = crefRun cid && segNonEmpty r then some (cid, rev.id, true) else none
  | .cs cid :: .del _ [_] :: .ins ri [.run r] :: .ce cid' :: .run cr :: _ =>
    if cid = cid' && cr = crefRun cid && r.ch.all isT && segNonEmpty r then some (cid, ri.id, false) else none
  | _ => none

/-- (shapes whose hypotheses hold, of those: conclusions that hold) for one paragraph -/
def shownCounts (cm : CMap) (p : Para) : Nat × Nat :=
  let snaps := (metaGroups cm p).flatten
  let rec go (pre : List Node) (rest : List Node) (fuel : Nat) (acc : Nat × Nat) : Nat × Nat :=
    match fuel, rest with
    | 0, _ => acc
    | _, [] => acc
    | fuel + 1, n :: more =>
      let acc' :=
        match shownShapeAt (n :: more) with
        | some (cid, rid, isDel) =>
          if isDel || !(stAfter {} pre 0).hide then
            let ok := snaps.any fun s => s.comments.contains cid && ((if isDel then s.del else s.ins).map (·.1)).contains rid
            (acc.1 + 1, acc.2 + (if ok then 1 else 0))
          else acc
        | none => acc
      go (pre ++ [n]) more fuel acc'
  go [] p.nodes (p.nodes.length + 1) (0, 0)

mutual
  def parasOfBlocks : List Block → List Para
    | [] => []
    | .para p :: rest => p :: parasOfBlocks rest
    | .table _ _ rows :: rest => parasOfRows rows ++ parasOfBlocks rest
    | .other _ :: rest => parasOfBlocks rest
  def parasOfRows : List Row → List Para
    | [] => []
    | .mk _ cells :: rest => parasOfCells cells ++ parasOfRows rest
  def parasOfCells : List Cell → List Para
    | [] => []
    | .mk _ _ _ blocks :: rest => parasOfBlocks blocks ++ parasOfCells rest
end

def shownCountsDoc (d : Document) : Nat × Nat :=
  let cm := commentsMap d
  ((docParts d).flatMap parasOfBlocks).foldl (fun acc p => let c := shownCounts cm p; (acc.1 + c.1, acc.2 + c.2)) (0, 0)

end Adeu.Doc
