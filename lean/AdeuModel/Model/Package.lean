/-
Package level model of a session's save (C11): a DOCX package as a list of parts (name, content
type, canonical content) and the relationships of the main document.  What the engine computed —
the new content of the text stories, the comment parts after the session and the relationships
created for comment parts that did not exist — is a parameter; the model says what a save does with
it: it replaces exactly those parts, appends the new comment parts and their relationships, and
leaves every other part and every existing relationship alone.
-/
namespace Adeu.Pkg

structure Part where
  name : String
  ctype : String
  content : String      -- canonical content (a digest in the driver)
deriving Repr, DecidableEq, Inhabited

structure Rel where
  id : String
  type : String
  target : String
  mode : String
deriving Repr, DecidableEq, Inhabited

structure Package where
  parts : List Part
  docRels : List Rel
deriving Repr, DecidableEq, Inhabited

def lookup (ps : List Part) (n : String) : Option Part := ps.find? (·.name == n)

/-- replace the parts that have a new version (same name), keep the others as they are -/
def updateParts (ps upd : List Part) : List Part :=
  ps.map fun p => (lookup upd p.name).getD p

/-- the new versions whose name is not in the package yet -/
def freshParts (ps upd : List Part) : List Part :=
  upd.filter fun u => (lookup ps u.name).isNone

/-- `stories`: new versions of text stories (main document, headers, footers);
`comments`: the comment parts after the session; `newRels`: relationships for created parts -/
def save (pkg : Package) (stories comments : List Part) (newRels : List Rel) : Package :=
  { parts := updateParts pkg.parts (stories ++ comments) ++ freshParts pkg.parts comments,
    docRels := pkg.docRels ++ newRels }

end Adeu.Pkg
