import AdeuModel.Model.Normalize
/-
Layer E — review actions on tracked changes: `RedlineEngine._accept_change`, `_reject_change`,
`accept_all_revisions` (main document part only: `self.doc.element.xpath("//w:ins[...]")`).
-/
namespace Adeu.Doc
open Adeu

-- apply `f` to the child list of every paragraph of a block list (tables included)
mutual
  def mapNodesBlocks (f : List Node → List Node) : List Block → List Block
    | [] => []
    | .para p :: rest => .para { p with nodes := f p.nodes } :: mapNodesBlocks f rest
    | .table pr g rows :: rest => .table pr g (mapNodesRows f rows) :: mapNodesBlocks f rest
    | .other x :: rest => .other x :: mapNodesBlocks f rest
  def mapNodesRows (f : List Node → List Node) : List Row → List Row
    | [] => []
    | .mk pr cells :: rest => .mk pr (mapNodesCells f cells) :: mapNodesRows f rest
  def mapNodesCells (f : List Node → List Node) : List Cell → List Cell
    | [] => []
    | .mk pr s v bs :: rest => .mk pr s v (mapNodesBlocks f bs) :: mapNodesCells f rest
end

-- all child lists of all paragraphs, in document order
mutual
  def allNodesBlocks : List Block → List Node
    | [] => []
    | .para p :: rest => p.nodes ++ allNodesBlocks rest
    | .table _ _ rows :: rest => allNodesRows rows ++ allNodesBlocks rest
    | .other _ :: rest => allNodesBlocks rest
  def allNodesRows : List Row → List Node
    | [] => []
    | .mk _ cells :: rest => allNodesCells cells ++ allNodesRows rest
  def allNodesCells : List Cell → List Node
    | [] => []
    | .mk _ _ _ bs :: rest => allNodesBlocks bs ++ allNodesCells rest
end

def InsChild.toNode : InsChild → Node
  | .run r => .run r
  | .cs id => .cs id
  | .ce id => .ce id
  | .other x => .other x

/-- `w:delText` → `w:t` -/
def Atom.undelete : Atom → Atom
  | .dt s => .t s
  | a => a

def Run.undelete (r : Run) : Run := { r with ch := r.ch.map Atom.undelete }

/-- accept the change `id` at one paragraph child: an insertion is unwrapped, a deletion disappears -/
def acceptN (id : Str) : Node → List Node
  | .ins rev ch => if rev.id = id then ch.map InsChild.toNode else [.ins rev ch]
  | .del rev runs => if rev.id = id then [] else [.del rev runs]
  | n => [n]

/-- reject the change `id`: an insertion disappears, a deletion becomes ordinary runs again -/
def rejectN (id : Str) : Node → List Node
  | .ins rev ch => if rev.id = id then [] else [.ins rev ch]
  | .del rev runs => if rev.id = id then runs.map (fun r => .run r.undelete) else [.del rev runs]
  | n => [n]

def hasRevN (id : Str) : Node → Bool
  | .ins rev _ => rev.id = id
  | .del rev _ => rev.id = id
  | _ => false

def hasRev (id : Str) (body : List Block) : Bool := (allNodesBlocks body).any (hasRevN id)

def acceptChange (id : Str) (body : List Block) : List Block × Bool :=
  (mapNodesBlocks (·.flatMap (acceptN id)) body, hasRev id body)

def rejectChange (id : Str) (body : List Block) : List Block × Bool :=
  (mapNodesBlocks (·.flatMap (rejectN id)) body, hasRev id body)

/-- `accept_all_revisions`: unwrap every insertion, drop every deletion, strip comment range
markers and reference elements (the reference *run* stays) -/
def acceptAllN : Node → List Node
  | .ins _ ch => (ch.map InsChild.toNode)
  | .del _ _ => []
  | n => [n]

def Atom.isCref : Atom → Bool
  | .cref _ => true
  | _ => false

def stripCommentN : Node → List Node
  | .cs _ | .ce _ => []
  | .run r => [.run { r with ch := r.ch.filter (!·.isCref) }]
  | n => [n]

def acceptAll (body : List Block) : List Block :=
  mapNodesBlocks (fun ns => (ns.flatMap acceptAllN).flatMap stripCommentN) body

/-! accepted-view characters of a paragraph's children (reference semantics for "same text") -/
def atomChars : Atom → Str
  | .t s => s
  | .tab => ['\t']
  | .br | .cr | .brT _ => ['\n']
  | .nbh => ['-']
  | _ => []

def acceptedCharsN : Node → Str
  | .run r => r.ch.flatMap atomChars
  | .ins _ ch => ch.flatMap fun | .run r => r.ch.flatMap atomChars | _ => []
  | .hl _ rs => rs.flatMap fun r => r.ch.flatMap atomChars
  | _ => []

def acceptedChars (ns : List Node) : Str := ns.flatMap acceptedCharsN

def isRevN : Node → Bool
  | .ins _ _ | .del _ _ => true
  | _ => false

inductive ActKind | accept | reject | reply
deriving Repr, DecidableEq, Inhabited

structure Action where
  kind : ActKind
  target : Str          -- raw target id, e.g. "Chg:12"
  text : Option Str
deriving Repr, DecidableEq, Inhabited

def stripPrefix (pre s : Str) : Option Str := if s.take pre.length = pre then some (s.drop pre.length) else none

/-- (target id, may address a change, may address a comment) -/
def parseTarget (raw : Str) : Str × Bool × Bool :=
  match stripPrefix "Chg:".toList raw with
  | some t => (t, true, false)
  | none =>
    match stripPrefix "Com:".toList raw with
    | some t => (t, false, true)
    | none => (raw, true, true)

end Adeu.Doc
