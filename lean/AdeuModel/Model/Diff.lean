import AdeuModel.Model.Str
import AdeuModel.Model.Trim
import AdeuModel.Model.WordTable
/-
Model of `adeu.diff.generate_edits_from_text` *after* diff-match-patch has produced the decoded
diff list: the `current_original_index` / `pending_delete` loop.  diff-match-patch itself is a
parameter (its output is the input `ds`); the contract `src ds = original`, `dst ds = modified`
is monitored by the harness on every observed call.
-/
namespace Adeu.Diff
open Adeu

inductive Op | eq | del | ins
deriving Repr, DecidableEq, Inhabited

abbrev DiffList := List (Op × Str)

def src : DiffList → Str
  | [] => []
  | (.eq, t) :: ds => t ++ src ds
  | (.del, t) :: ds => t ++ src ds
  | (.ins, _) :: ds => src ds

def dst : DiffList → Str
  | [] => []
  | (.eq, t) :: ds => t ++ dst ds
  | (.del, _) :: ds => dst ds
  | (.ins, t) :: ds => t ++ dst ds

def flush : Option (Nat × Str) → List Edit
  | none => []
  | some (i, d) => [⟨i, d, []⟩]

/-- `re.match(r"\w+", next_text)`: the first word (empty when the text does not start with one) -/
def anchorTarget (next : Str) : Str := next.takeWhile pyIsWord

/-- The standard (non start-of-document) pure insertion: empty target at the cursor. -/
def stdIns (cur : Nat) (t : Str) : Edit := ⟨cur, [], t⟩

/-- The loop of `generate_edits_from_text`. `cur` = `current_original_index`,
`p` = `pending_delete`. -/
def go : DiffList → Nat → Option (Nat × Str) → List Edit
  | [], _, p => flush p
  | (.eq, t) :: ds, cur, p => flush p ++ go ds (cur + t.length) none
  | (.del, t) :: ds, cur, none => go ds (cur + t.length) (some (cur, t))
  | (.del, t) :: ds, cur, some (i, d) => go ds (cur + t.length) (some (i, d ++ t))
  | (.ins, t) :: ds, cur, some (i, d) => ⟨i, d, t⟩ :: go ds cur none
  | (.ins, t) :: ds, cur, none =>
      if cur = 0 then
        match ds with
        | (.eq, nt) :: _ =>
            if anchorTarget nt = [] then stdIns cur t :: go ds cur none
            else ⟨0, anchorTarget nt, t ++ anchorTarget nt⟩ :: go ds cur none
        | _ => stdIns cur t :: go ds cur none
      else stdIns cur t :: go ds cur none

def editsOfDiffs (ds : DiffList) : List Edit := go ds 0 none

/-- The pinned (4fd4704) behaviour of the standard insertion, kept for the counterexample:
target = up to 50 characters before the cursor, index = the cursor (i.e. the *end* of the
target). -/
def stdInsPinned (orig : Str) (cur : Nat) (t : Str) : Edit :=
  let a := (orig.drop (cur - 50)).take (cur - (cur - 50))
  ⟨cur, a, a ++ t⟩

def goPinned (orig : Str) : DiffList → Nat → Option (Nat × Str) → List Edit
  | [], _, p => flush p
  | (.eq, t) :: ds, cur, p => flush p ++ goPinned orig ds (cur + t.length) none
  | (.del, t) :: ds, cur, _ => goPinned orig ds (cur + t.length) (some (cur, t))
  | (.ins, t) :: ds, cur, some (i, d) => ⟨i, d, t⟩ :: goPinned orig ds cur none
  | (.ins, t) :: ds, cur, none =>
      if cur = 0 then
        match ds with
        | (.eq, nt) :: _ =>
            if anchorTarget nt = [] then stdInsPinned orig cur t :: goPinned orig ds cur none
            else ⟨0, anchorTarget nt, t ++ anchorTarget nt⟩ :: goPinned orig ds cur none
        | _ => stdInsPinned orig cur t :: goPinned orig ds cur none
      else stdInsPinned orig cur t :: goPinned orig ds cur none

/-- No deletion directly follows a deletion (diff-match-patch's merged normal form). Two
consecutive deletions would make the loop forget the first one. -/
def NoDelDel : DiffList → Prop
  | (.del, _) :: (.del, t) :: ds => False ∧ NoDelDel ((.del, t) :: ds)
  | _ :: ds => NoDelDel ds
  | [] => True

def noDelDelB : DiffList → Bool
  | (.del, _) :: (.del, _) :: _ => false
  | _ :: ds => noDelDelB ds
  | [] => true

/-! Token level view: diff-match-patch works on token codes, so every diff entry is a
concatenation of whole tokens. -/
abbrev TokDiffList := List (Op × List Str)

def flat (ts : List Str) : Str := ts.flatten

def ofTok (tds : TokDiffList) : DiffList := tds.map fun (o, ts) => (o, flat ts)

def srcTok : TokDiffList → List Str
  | [] => []
  | (.eq, t) :: ds => t ++ srcTok ds
  | (.del, t) :: ds => t ++ srcTok ds
  | (.ins, _) :: ds => srcTok ds

def dstTok : TokDiffList → List Str
  | [] => []
  | (.eq, t) :: ds => t ++ dstTok ds
  | (.del, _) :: ds => dstTok ds
  | (.ins, t) :: ds => t ++ dstTok ds

end Adeu.Diff

namespace Adeu.Diff
open Adeu

/-- the `comment` each emitted edit carries (aligned with `go`) -/
def flushNote : Option (Nat × Str) → List String
  | none => []
  | some _ => ["Diff: Text deleted"]

def goNotes : DiffList → Nat → Option (Nat × Str) → List String
  | [], _, p => flushNote p
  | (.eq, t) :: ds, cur, p => flushNote p ++ goNotes ds (cur + t.length) none
  | (.del, t) :: ds, cur, none => goNotes ds (cur + t.length) (some (cur, t))
  | (.del, t) :: ds, cur, some (i, d) => goNotes ds (cur + t.length) (some (i, d ++ t))
  | (.ins, _) :: ds, cur, some _ => "Diff: Replacement" :: goNotes ds cur none
  | (.ins, _) :: ds, cur, none =>
      if cur = 0 then
        match ds with
        | (.eq, nt) :: _ =>
            if anchorTarget nt = [] then "Diff: Text inserted" :: goNotes ds cur none
            else "Diff: Start-of-doc insertion" :: goNotes ds cur none
        | _ => "Diff: Text inserted" :: goNotes ds cur none
      else "Diff: Text inserted" :: goNotes ds cur none

def notesOfDiffs (ds : DiffList) : List String := goNotes ds 0 none

end Adeu.Diff

/-! ### `_split_at_separators`: a replacement whose two sides share their separators is split into
one change per segment. -/
namespace Adeu.Diff
open Adeu

def sp (c : Char) : Bool := Trim.pyIsSpace c

/-- length of the match of `\s*\n\s*| \| ` at the head of `r` (0: no match).  The first alternative
matches exactly when the maximal whitespace run at the head contains a line break, and then it
matches the whole run. -/
def sepAt (r : Str) : Nat :=
  let w := r.takeWhile sp
  if w.contains '\n' then w.length
  else if r.take 3 = [' ', '|', ' '] then 3 else 0

/-- `_SEPARATOR.split(s)`: `[text, sep, text, …, text]` (odd length). `cur` is the text collected
since the last separator. -/
def sepSplitFuel : Nat → Str → Str → List Str
  | 0, cur, r => [cur ++ r]
  | _ + 1, cur, [] => [cur]
  | n + 1, cur, c :: r =>
      if sepAt (c :: r) = 0 then sepSplitFuel n (cur ++ [c]) r
      else cur :: (c :: r).take (sepAt (c :: r)) :: sepSplitFuel n [] ((c :: r).drop (sepAt (c :: r)))

def sepSplit (s : Str) : List Str := sepSplitFuel s.length [] s

/-- the next token of `_TOKEN_PATTERN` at the head of a non-empty `r`; `ls`: at the start of a line -/
def nextTokG (sp isw : Char → Bool) (ls : Bool) (r : Str) : Str × Str :=
  let hashes := r.takeWhile (· == '#')
  if ls && !hashes.isEmpty && (r.drop hashes.length).head? == some ' ' then
    (r.take (hashes.length + 1), r.drop (hashes.length + 1))
  else if r.take 3 = [' ', '|', ' '] then (r.take 3, r.drop 3)
  else match r with
    | [] => ([], [])
    | c :: _ =>
      if c == '\n' then (r.takeWhile (· == '\n'), r.dropWhile (· == '\n'))
      else if sp c then (r.takeWhile (fun x => sp x && x != '\n'), r.dropWhile (fun x => sp x && x != '\n'))
      else if isw c then (r.takeWhile isw, r.dropWhile isw)
      else (r.take 1, r.drop 1)

def nextTok (ls : Bool) (r : Str) : Str × Str := nextTokG sp pyIsWord ls r

def tokensFuel : Nat → Bool → Str → List Str
  | 0, _, r => if r.isEmpty then [] else [r]
  | n + 1, ls, r =>
      if r.isEmpty then []
      else
        let (t, rest) := nextTok ls r
        t :: tokensFuel n (t.getLast? == some '\n') rest

/-- `[t for t in re.split(_TOKEN_PATTERN, s) if t]` -/
def tokens (s : Str) : List Str := tokensFuel s.length true s

def commonPrefixLen : List Str → List Str → Nat
  | a :: as, b :: bs => if a = b then commonPrefixLen as bs + 1 else 0
  | _, _ => 0

/-- the pieces emitted for one pair of segments -/
def pieces (d i : Str) : DiffList :=
  let dt := tokens d
  let it := tokens i
  let lead := commonPrefixLen dt it
  let trail := min (commonPrefixLen dt.reverse it.reverse) (min dt.length it.length - lead)
  [(Op.eq, flat (dt.take lead)),
   (Op.del, flat ((dt.drop lead).take (dt.length - lead - trail))),
   (Op.ins, flat ((it.drop lead).take (it.length - lead - trail))),
   (Op.eq, flat (dt.drop (dt.length - trail)))].filter fun p => !p.2.isEmpty

/-- same number of parts, same separators -/
def compat : List Str → List Str → Bool
  | [_], [_] => true
  | _ :: s :: dr, _ :: s' :: ir => s == s' && compat dr ir
  | _, _ => false

def segments : List Str → List Str → DiffList
  | d :: s :: dr, i :: _ :: ir => pieces d i ++ (Op.eq, s) :: segments dr ir
  | [d], [i] => pieces d i
  | _, _ => []

def splitPair (d i : Str) : Option DiffList :=
  let dp := sepSplit d
  let ip := sepSplit i
  if dp.length > 1 && compat dp ip then some (segments dp ip) else none

def splitDiffs : DiffList → DiffList
  | (.del, d) :: (.ins, i) :: rest =>
      match splitPair d i with
      | some ps => ps ++ splitDiffs rest
      | none => (.del, d) :: splitDiffs ((.ins, i) :: rest)
  | x :: rest => x :: splitDiffs rest
  | [] => []

/-- `generate_edits_from_text` after diff-match-patch: separator splitting, then the loop -/
def editsOfRaw (ds : DiffList) : List Edit := editsOfDiffs (splitDiffs ds)
def notesOfRaw (ds : DiffList) : List String := notesOfDiffs (splitDiffs ds)

end Adeu.Diff
