import AdeuModel.Model.Str
/-
Model of `adeu.diff.generate_edits_from_text` *after* diff-match-patch has produced the decoded
diff list: the `current_original_index` / `pending_delete` loop.  diff-match-patch itself is a
parameter (its output is the input `ds`); the contract `src ds = original`, `dst ds = modified`
is monitored by the harness on every observed call.
-/
namespace Adeu.Diff
open Adeu

inductive Op | eq | del | ins
deriving Repr, DecidableEq, Inhabited

abbrev DiffList := List (Op × Str)

def src : DiffList → Str
  | [] => []
  | (.eq, t) :: ds => t ++ src ds
  | (.del, t) :: ds => t ++ src ds
  | (.ins, _) :: ds => src ds

def dst : DiffList → Str
  | [] => []
  | (.eq, t) :: ds => t ++ dst ds
  | (.del, _) :: ds => dst ds
  | (.ins, t) :: ds => t ++ dst ds

def flush : Option (Nat × Str) → List Edit
  | none => []
  | some (i, d) => [⟨i, d, []⟩]

/-- `next_text.split(" ")[0] if " " in next_text else next_text[:20]` -/
def anchorTarget (next : Str) : Str :=
  if next.contains ' ' then next.takeWhile (· != ' ') else next.take 20

/-- The standard (non start-of-document) pure insertion: empty target at the cursor. -/
def stdIns (cur : Nat) (t : Str) : Edit := ⟨cur, [], t⟩

/-- The loop of `generate_edits_from_text`. `cur` = `current_original_index`,
`p` = `pending_delete`. -/
def go : DiffList → Nat → Option (Nat × Str) → List Edit
  | [], _, p => flush p
  | (.eq, t) :: ds, cur, p => flush p ++ go ds (cur + t.length) none
  | (.del, t) :: ds, cur, none => go ds (cur + t.length) (some (cur, t))
  | (.del, t) :: ds, cur, some (i, d) => go ds (cur + t.length) (some (i, d ++ t))
  | (.ins, t) :: ds, cur, some (i, d) => ⟨i, d, t⟩ :: go ds cur none
  | (.ins, t) :: ds, cur, none =>
      if cur = 0 then
        match ds with
        | (.eq, nt) :: _ =>
            if anchorTarget nt = [] then stdIns cur t :: go ds cur none
            else ⟨0, anchorTarget nt, t ++ anchorTarget nt⟩ :: go ds cur none
        | _ => stdIns cur t :: go ds cur none
      else stdIns cur t :: go ds cur none

def editsOfDiffs (ds : DiffList) : List Edit := go ds 0 none

/-- The pinned (4fd4704) behaviour of the standard insertion, kept for the counterexample:
target = up to 50 characters before the cursor, index = the cursor (i.e. the *end* of the
target). -/
def stdInsPinned (orig : Str) (cur : Nat) (t : Str) : Edit :=
  let a := (orig.drop (cur - 50)).take (cur - (cur - 50))
  ⟨cur, a, a ++ t⟩

def goPinned (orig : Str) : DiffList → Nat → Option (Nat × Str) → List Edit
  | [], _, p => flush p
  | (.eq, t) :: ds, cur, p => flush p ++ goPinned orig ds (cur + t.length) none
  | (.del, t) :: ds, cur, _ => goPinned orig ds (cur + t.length) (some (cur, t))
  | (.ins, t) :: ds, cur, some (i, d) => ⟨i, d, t⟩ :: goPinned orig ds cur none
  | (.ins, t) :: ds, cur, none =>
      if cur = 0 then
        match ds with
        | (.eq, nt) :: _ =>
            if anchorTarget nt = [] then stdInsPinned orig cur t :: goPinned orig ds cur none
            else ⟨0, anchorTarget nt, t ++ anchorTarget nt⟩ :: goPinned orig ds cur none
        | _ => stdInsPinned orig cur t :: goPinned orig ds cur none
      else stdInsPinned orig cur t :: goPinned orig ds cur none

/-- No deletion directly follows a deletion (diff-match-patch's merged normal form). Two
consecutive deletions would make the loop forget the first one. -/
def NoDelDel : DiffList → Prop
  | (.del, _) :: (.del, t) :: ds => False ∧ NoDelDel ((.del, t) :: ds)
  | _ :: ds => NoDelDel ds
  | [] => True

def noDelDelB : DiffList → Bool
  | (.del, _) :: (.del, _) :: _ => false
  | _ :: ds => noDelDelB ds
  | [] => true

/-! Token level view: diff-match-patch works on token codes, so every diff entry is a
concatenation of whole tokens. -/
abbrev TokDiffList := List (Op × List Str)

def flat (ts : List Str) : Str := ts.flatten

def ofTok (tds : TokDiffList) : DiffList := tds.map fun (o, ts) => (o, flat ts)

def srcTok : TokDiffList → List Str
  | [] => []
  | (.eq, t) :: ds => t ++ srcTok ds
  | (.del, t) :: ds => t ++ srcTok ds
  | (.ins, _) :: ds => srcTok ds

def dstTok : TokDiffList → List Str
  | [] => []
  | (.eq, t) :: ds => t ++ dstTok ds
  | (.del, _) :: ds => dstTok ds
  | (.ins, t) :: ds => t ++ dstTok ds

end Adeu.Diff
