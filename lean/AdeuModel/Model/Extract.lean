import AdeuModel.Model.Doc
/-
Layer D — the reader: `adeu.ingest.extract_text_from_stream` (what the client sees), with
`CommentsManager.extract_comments_data` and the metadata renderer `_build_merged_meta_block`.
-/
namespace Adeu.Doc
open Adeu

structure CData where
  author : Str
  text : Str
  date : Str
  resolved : Bool
  parent : Option Str
deriving Repr, DecidableEq, Inhabited

/-- insertion-ordered dictionary id → data -/
abbrev CMap := List (Str × CData)

def cmGet (m : CMap) (k : Str) : Option CData := (m.find? fun p => p.1 = k).map (·.2)

/-- `d[k] = v` (position of an existing key is kept) -/
def cmSet (k : Str) (v : CData) : CMap → CMap
  | [] => [(k, v)]
  | (k', v') :: r => if k' = k then (k, v) :: r else (k', v') :: cmSet k v r

def dictSet (k v : Str) : List (Str × Str) → List (Str × Str)
  | [] => [(k, v)]
  | (k', v') :: r => if k' = k then (k, v) :: r else (k', v') :: dictSet k v r

def dictGet (m : List (Str × Str)) (k : Str) : Option Str := (m.find? fun p => p.1 = k).map (·.2)

def truthy (o : Option Str) : Option Str := match o with | some s => if s.isEmpty then none else some s | none => none

def commentText (c : Comment) : Str :=
  Doc.stripStr Trim.pyIsSpace (c.paras.flatMap fun p => (p.text.filter (!·.isEmpty)).flatten ++ ['\n'])

/-- `extract_comments_data` -/
def commentsMap (d : Document) : CMap :=
  let step (acc : CMap × List (Str × Str)) (c : Comment) : CMap × List (Str × Str) :=
    let (data, p2c) := acc
    let resolved := c.doneAttr = some "1".toList || c.doneAttr = some "true".toList || c.doneAttr = some "on".toList
    let p2c' := c.paras.foldl (fun m p => match truthy p.paraId with | some pid => dictSet pid c.id m | none => m) p2c
    (cmSet c.id { author := (truthy c.author).getD "Unknown".toList, text := commentText c,
                  date := c.date.getD [], resolved := resolved, parent := truthy c.legacyParent } data, p2c')
  let (data, p2c) := d.comments.foldl step ([], [])
  if d.hasExtended then
    d.commentsEx.foldl (fun data e =>
      match truthy e.paraId, truthy e.parent with
      | some pid, some ppid =>
        match dictGet p2c pid, dictGet p2c ppid with
        | some cid, some par =>
          match cmGet data cid with
          | some cd => cmSet cid { cd with parent := some par } data
          | none => data
        | _, _ => data
      | _, _ => data) data
  else data

/-! ### string order (Python compares code points) -/
def strLe : Str → Str → Bool
  | [], _ => true
  | _ :: _, [] => false
  | a :: as, b :: bs => if a.toNat < b.toNat then true else if a.toNat > b.toNat then false else strLe as bs

/-- stable insertion sort by key -/
def insertBy (key : α → Str) (x : α) : List α → List α
  | [] => [x]
  | y :: r => if strLe (key y) (key x) then y :: insertBy key x r else x :: y :: r

def sortBy (key : α → Str) (l : List α) : List α := l.foldl (fun acc x => insertBy key x acc) []

/-- active revision marks: insertion-ordered dictionary id → author -/
abbrev RevMap := List (Str × Option Str)

def revSet (k : Str) (a : Option Str) : RevMap → RevMap
  | [] => [(k, a)]
  | (k', a') :: r => if k' = k then (k, a) :: r else (k', a') :: revSet k a r

def revDel (k : Str) (m : RevMap) : RevMap := m.filter fun p => p.1 != k

structure Snap where
  ins : RevMap
  del : RevMap
  comments : List Str      -- a set: no duplicates
deriving Repr, DecidableEq, Inhabited

def setAdd (k : Str) (s : List Str) : List Str := if s.contains k then s else s ++ [k]
def setDel (k : Str) (s : List Str) : List Str := s.filter (· != k)

def dateDay (d : Str) : Str := d.takeWhile (· != 'T')

/-- children of `cid` in dictionary order, then stably sorted by date -/
def childrenOf (cm : CMap) (cid : Str) : List Str :=
  sortBy (fun x => ((cmGet cm x).map (·.date)).getD []) ((cm.filter fun p => p.2.parent = some cid).map (·.1))

/-- `render_comment` (recursive over the thread; `fuel` bounds the recursion, `seen` stops cycles) -/
def renderComment (cm : CMap) : Nat → Str → (List Str × List Str) → (List Str × List Str)
  | 0, _, acc => acc
  | fuel + 1, cid, (lines, seen) =>
    match cmGet cm cid with
    | none => (lines, seen)
    | some data =>
      let sig := "Com:".toList ++ cid
      if seen.contains sig then (lines, seen)
      else
        let header := ['['] ++ sig ++ [']', ' '] ++ data.author ++
          (if data.date.isEmpty then [] else " @ ".toList ++ dateDay data.date)
        let line := header ++ [':', ' '] ++ data.text
        (childrenOf cm cid).foldl (fun acc ch => renderComment cm fuel ch acc) (lines ++ [line], seen ++ [sig])

/-- `_build_merged_meta_block` -/
def metaBlock (cm : CMap) (states : List Snap) : Str :=
  let step (acc : List Str × List Str × List Str) (s : Snap) : List Str × List Str × List Str :=
    let (chg, com, seen) := acc
    let (chg, seen) := (s.ins ++ s.del).foldl (fun (acc : List Str × List Str) p =>
      let sig := "Chg:".toList ++ p.1
      if acc.2.contains sig then acc
      else (acc.1 ++ [['['] ++ sig ++ [']', ' '] ++ ((truthy p.2).getD "Unknown".toList)], acc.2 ++ [sig])) (chg, seen)
    let (com, seen) := (sortBy id s.comments).foldl (fun acc root => renderComment cm (cm.length + 1) root acc) (com, seen)
    (chg, com, seen)
  let (chg, com, _) := states.foldl step ([], [], [])
  joinWith ['\n'] (chg ++ com)

def wrappers (ins del : RevMap) (comments : List Str) : Str × Str :=
  if !del.isEmpty then ("{--".toList, "--}".toList)
  else if !ins.isEmpty then ("{++".toList, "++}".toList)
  else if !comments.isEmpty then ("{==".toList, "==}".toList)
  else ([], [])

/-- look-ahead of the metadata deferral: is the next run inside a revision? -/
def nextIsRedline : Bool → Bool → List Item → Bool
  | _, _, [] => false
  | ti, td, .run _ _ :: _ => ti || td
  | ti, td, .ev ty _ _ :: rest =>
    match ty with
    | .insStart => nextIsRedline true td rest
    | .insEnd => nextIsRedline false td rest
    | .delStart => nextIsRedline ti true rest
    | .delEnd => nextIsRedline ti false rest
    | _ => nextIsRedline ti td rest

structure PSt where
  out : Str := []
  ins : RevMap := []
  del : RevMap := []
  comments : List Str := []
  deferred : List Snap := []
  pending : Str := []
  wr : Str × Str := ([], [])
deriving Repr, Inhabited

def PSt.flush (s : PSt) : PSt :=
  if s.pending.isEmpty then s
  else { s with out := s.out ++ s.wr.1 ++ s.pending ++ s.wr.2, pending := [], wr := ([], []) }

def metaWrap (m : Str) : Str := if m.isEmpty then [] else "{>>".toList ++ m ++ "<<}".toList

def applyEv (s : PSt) (ty : EvTy) (id : Str) (author : Option Str) : PSt :=
  match ty with
  | .start => { s with comments := setAdd id s.comments }
  | .end_ => { s with comments := setDel id s.comments }
  | .insStart => { s with ins := revSet id author s.ins }
  | .insEnd => { s with ins := revDel id s.ins }
  | .delStart => { s with del := revSet id author s.del }
  | .delEnd => { s with del := revDel id s.del }
  | .ref => s

/-- append a run's segment to the pending text (same wrappers) or start a new buffer -/
def PSt.push (s : PSt) (seg : Str) (nw : Str × Str) : PSt :=
  if !s.pending.isEmpty && nw = s.wr then { s with pending := s.pending ++ seg }
  else
    let s0 := if s.pending.isEmpty then s else { s with out := s.out ++ s.wr.1 ++ s.pending ++ s.wr.2 }
    { s0 with pending := seg, wr := nw }

/-- metadata handling after a run (raw view): snapshot, look-ahead, deferred or emitted block -/
def PSt.meta (cm : CMap) (s1 : PSt) (rest : List Item) : PSt :=
  let s2 := { s1 with deferred := s1.deferred ++ [{ ins := s1.ins, del := s1.del, comments := s1.comments }] }
  let redline := !s2.ins.isEmpty || !s2.del.isEmpty
  let defer := redline && nextIsRedline (!s2.ins.isEmpty) (!s2.del.isEmpty) rest
  if defer then s2
  else
    let s3 := s2.flush
    { s3 with out := s3.out ++ metaWrap (metaBlock cm s3.deferred), deferred := [] }

/-- `_build_paragraph_text`, one item at a time -/
def paraStep (clean : Bool) (cm : CMap) (s : PSt) (item : Item) (rest : List Item) : PSt :=
  match item with
  | .ev ty id author => applyEv s.flush ty id author
  | .run r _ =>
    if clean && !s.del.isEmpty then s
    else
      let (pre, suf) := runMarkers r
      let seg := applyFormatting (runText r) pre suf
      if seg.isEmpty then s
      else
        let nw := if clean then ([], []) else wrappers s.ins s.del s.comments
        let s1 := s.push seg nw
        if clean then s1 else s1.meta cm rest

def paraLoop (clean : Bool) (cm : CMap) : PSt → List Item → PSt
  | s, [] => s
  | s, it :: rest => paraLoop clean cm (paraStep clean cm s it rest) rest

def paraText (clean : Bool) (cm : CMap) (p : Para) : Str :=
  let s := (paraLoop clean cm {} (items p)).flush
  if s.deferred.isEmpty then s.out else s.out ++ metaWrap (metaBlock cm s.deferred)

/-! ### tables (python-docx `row.cells`) and blocks -/

def Cell.span : Cell → Nat | .mk _ s _ _ => s
def Cell.vm : Cell → VM | .mk _ _ v _ => v
def Cell.blocks : Cell → List Block | .mk _ _ _ b => b
def Row.cells : Row → List Cell | .mk _ c => c

/-- index of the `w:tc` at grid offset `off` in a row -/
def tcAtOffset : List Cell → Nat → Nat → Option Nat
  | [], _, _ => none
  | c :: rest, off, k => if off = 0 then some k else if off < c.span then none else tcAtOffset rest (off - c.span) (k + 1)

/-- resolve a (row, cell) position to the position that holds the content (follows `vMerge=continue`
upwards); `rowsAbove` is the list of earlier rows, nearest first. -/
def resolveCell : List (List Cell) → List Cell → Nat → Nat → Nat × Nat
  | [], _, ri, ci => (ri, ci)
  | above :: more, row, ri, ci =>
    match row[ci]? with
    | none => (ri, ci)
    | some c =>
      if c.vm = .continue_ then
        let off := (row.take ci).foldl (fun a x => a + x.span) 0
        match tcAtOffset above off 0 with
        | some cj => resolveCell more above (ri - 1) cj
        | none => (ri, ci)
      else (ri, ci)

/-- the distinct content cells of row `ri` in order, as python-docx's `row.cells` + `seen_cells` present them -/
def rowContentCells (rows : List (List Cell)) (ri : Nat) : List (Nat × Nat) :=
  match rows[ri]? with
  | none => []
  | some row =>
    let above := (rows.take ri).reverse
    (List.range row.length).map fun ci => resolveCell above row ri ci

mutual
  def blocksText (clean : Bool) (cm : CMap) : List Block → List Str
    | [] => []
    | .para p :: rest => (paraPrefix p ++ paraText clean cm p) :: blocksText clean cm rest
    | .table _ _ rows :: rest =>
      let t := tableText clean cm rows
      if t.isEmpty then blocksText clean cm rest else t :: blocksText clean cm rest
    | .other _ :: rest => blocksText clean cm rest
  /-- text of every cell of every row (content by position) -/
  def rowsCellTexts (clean : Bool) (cm : CMap) : List Row → List (List Str)
    | [] => []
    | .mk _ cells :: rest => cellsTexts clean cm cells :: rowsCellTexts clean cm rest
  def cellsTexts (clean : Bool) (cm : CMap) : List Cell → List Str
    | [] => []
    | .mk _ _ _ blocks :: rest => joinWith ['\n', '\n'] (blocksText clean cm blocks) :: cellsTexts clean cm rest
  def tableText (clean : Bool) (cm : CMap) (rows : List Row) : Str :=
    let texts := rowsCellTexts clean cm rows
    let cellsOf := rows.map Row.cells
    let rowStrs := (List.range rows.length).map fun ri =>
      joinWith " | ".toList ((rowContentCells cellsOf ri).map fun (r, c) => ((texts[r]?).getD [])[c]?.getD [])
    joinWith ['\n'] rowStrs
end

def containerText (clean : Bool) (cm : CMap) (bs : List Block) : Str :=
  joinWith ['\n', '\n'] (blocksText clean cm bs)

/-- `iter_document_parts` for a single-section document -/
def storyOf (ss : List Story) (ty : String) : List (List Block) :=
  match ss.find? fun s => s.ty = ty.toList with
  | some s => [s.blocks]
  | none => []

def docParts (d : Document) : List (List Block) :=
  let pick (ss : List Story) :=
    storyOf ss "default" ++ (if d.titlePg then storyOf ss "first" else []) ++ (if d.evenOdd then storyOf ss "even" else [])
  pick d.headers ++ [d.body] ++ pick d.footers

/-- `extract_text_from_stream` -/
def extractText (clean : Bool) (d : Document) : Str :=
  let cm := commentsMap d
  joinWith ['\n', '\n'] ((docParts d).map (containerText clean cm) |>.filter (!·.isEmpty))

end Adeu.Doc
