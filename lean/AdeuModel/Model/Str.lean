/-
Layer S — strings.  `Str` is a list of code points (Python `str`).
Model files import nothing.
-/
namespace Adeu

abbrev Str := List Char

/-- One edit in coordinates of the original text: replace `target` (which is claimed to sit at
`idx`) by `new`. -/
structure Edit where
  idx    : Nat
  target : Str
  new    : Str
deriving Repr, DecidableEq, Inhabited

/-- "Replace every target by its new text": walk the edits left to right; `pos` is the number of
characters of the original that were consumed already and `rest` is the original from `pos` on. -/
def applyFrom (pos : Nat) (rest : Str) : List Edit → Str
  | [] => rest
  | e :: es =>
      rest.take (e.idx - pos) ++ e.new ++
        applyFrom (e.idx + e.target.length) (rest.drop (e.idx - pos + e.target.length)) es

def applyEdits (s : Str) (es : List Edit) : Str := applyFrom 0 s es

/-- Edits are sorted and pairwise non-overlapping, starting at or after `base`. -/
def SortedFrom : Nat → List Edit → Prop
  | _, [] => True
  | base, e :: es => base ≤ e.idx ∧ SortedFrom (e.idx + e.target.length) es

/-- Every target is the original text at the edit's position. -/
def TargetsAt (orig : Str) (es : List Edit) : Prop :=
  ∀ e ∈ es, (orig.drop e.idx).take e.target.length = e.target

/-- One edit applied on its own to the current text: the indexed application of the engine, seen on
the extracted text. -/
def replaceOne (s : Str) (e : Edit) : Str :=
  s.take e.idx ++ e.new ++ s.drop (e.idx + e.target.length)

/-- The script applied one edit at a time, last edit first ("indexed first, reverse order"). -/
def applyDesc (s : Str) (es : List Edit) : Str := es.foldr (fun e acc => replaceOne acc e) s

/-- Every edit addresses a range of the text. -/
def InRange (n : Nat) (es : List Edit) : Prop := ∀ e ∈ es, e.idx + e.target.length ≤ n

/-- Boolean versions for the driver. -/
def sortedFromB : Nat → List Edit → Bool
  | _, [] => true
  | base, e :: es => decide (base ≤ e.idx) && sortedFromB (e.idx + e.target.length) es

def targetsAtB (orig : Str) (es : List Edit) : Bool :=
  es.all fun e => (orig.drop e.idx).take e.target.length == e.target

end Adeu
