import AdeuModel.Model.Extract
/-
Layer D — `adeu.utils.docx.normalize_docx`: proofErr removal (main document part only) and run
coalescing (`_coalesce_runs_in_paragraph`, adjacency-respecting), and the canonical content `canon`
against which content-neutrality is stated.
-/
namespace Adeu.Doc
open Adeu

/-- `_has_special_content`: any child other than t, tab, br, cr, delText (and rPr). -/
def Atom.special : Atom → Bool
  | .t _ | .dt _ | .tab | .br | .cr | .brT _ => false
  | _ => true

def runSpecial (r : Run) : Bool := r.ch.any Atom.special

/-- `_are_runs_identical`: the serialised `w:rPr` elements are equal. -/
def runsIdentical (a b : Run) : Bool :=
  a.b == b.b && a.i == b.i && a.rest == b.rest && a.emptyRPr == b.emptyRPr

def mergeable (a b : Run) : Bool := !runSpecial a && !runSpecial b && runsIdentical a b

def mergeRuns (a b : Run) : Run := { a with ch := a.ch ++ b.ch }

/-- `_coalesce_runs_in_paragraph` on the child list of a paragraph. -/
def coalesce : List Node → List Node
  | .run a :: .run b :: rest =>
    if mergeable a b then coalesce (.run (mergeRuns a b) :: rest)
    else .run a :: coalesce (.run b :: rest)
  | n :: rest => n :: coalesce rest
  | [] => []
termination_by l => l.length

def isProof : Node → Bool
  | .proof _ => true
  | _ => false

def Para.stripProof (p : Para) : Para := { p with nodes := p.nodes.filter (!isProof ·) }
def Para.coalesce (p : Para) : Para := { p with nodes := Doc.coalesce p.nodes }

mutual
  def stripProofBlocks : List Block → List Block
    | [] => []
    | .para p :: rest => .para p.stripProof :: stripProofBlocks rest
    | .table pr g rows :: rest => .table pr g (stripProofRows rows) :: stripProofBlocks rest
    | .other x :: rest => .other x :: stripProofBlocks rest
  def stripProofRows : List Row → List Row
    | [] => []
    | .mk pr cells :: rest => .mk pr (stripProofCells cells) :: stripProofRows rest
  def stripProofCells : List Cell → List Cell
    | [] => []
    | .mk pr s v bs :: rest => .mk pr s v (stripProofBlocks bs) :: stripProofCells rest
end

mutual
  /-- coalescing reaches cells through `row.cells`, which substitutes the cell above for a
  `vMerge=continue` cell: the continue cell's own paragraphs are never visited. -/
  def coalesceBlocks : List Block → List Block
    | [] => []
    | .para p :: rest => .para p.coalesce :: coalesceBlocks rest
    | .table pr g rows :: rest => .table pr g (coalesceRows rows) :: coalesceBlocks rest
    | .other x :: rest => .other x :: coalesceBlocks rest
  def coalesceRows : List Row → List Row
    | [] => []
    | .mk pr cells :: rest => .mk pr (coalesceCells cells) :: coalesceRows rest
  def coalesceCells : List Cell → List Cell
    | [] => []
    | .mk pr s v bs :: rest =>
      (if v = .continue_ then .mk pr s v bs else .mk pr s v (coalesceBlocks bs)) :: coalesceCells rest
end

def activeStory (d : Document) (s : Story) : Bool :=
  s.ty = "default".toList || (s.ty = "first".toList && d.titlePg) || (s.ty = "even".toList && d.evenOdd)

/-- the first story of each type is the one `iter_document_parts` reaches -/
def normStories (d : Document) (ss : List Story) : List Story :=
  let rec go (seen : List Str) : List Story → List Story
    | [] => []
    | s :: rest =>
      if activeStory d s && !seen.contains s.ty then { s with blocks := coalesceBlocks s.blocks } :: go (s.ty :: seen) rest
      else s :: go seen rest
  go [] ss

def normalize (d : Document) : Document :=
  { d with headers := normStories d d.headers,
           body := coalesceBlocks (stripProofBlocks d.body),
           footers := normStories d d.footers }

/-! ### canonical content: what "content-neutral" compares -/

structure Fmt where
  b : Option Str
  i : Option Str
  rest : Str
  emptyRPr : Bool
deriving Repr, DecidableEq, Inhabited

def Run.fmt (r : Run) : Fmt := ⟨r.b, r.i, r.rest, r.emptyRPr⟩

inductive CItem
  | ch (c : Char) (deleted : Bool) (f : Fmt)        -- one character of w:t / w:delText
  | atom (a : Atom) (f : Fmt)                       -- tab, break, reference, drawing, ...
  | insOpen (r : Rev) | insClose
  | delOpen (r : Rev) | delClose
  | cs (id : Str) | ce (id : Str)
  | hlOpen (attrs : Str) | hlClose
  | other (xml : Str)
deriving Repr, DecidableEq, Inhabited

def canonAtom (f : Fmt) : Atom → List CItem
  | .t s => s.map fun c => .ch c false f
  | .dt s => s.map fun c => .ch c true f
  | a => [.atom a f]

def canonRun (r : Run) : List CItem := r.ch.flatMap (canonAtom r.fmt)

def canonInsChild : InsChild → List CItem
  | .run r => canonRun r
  | .cs id => [.cs id]
  | .ce id => [.ce id]
  | .other x => [.other x]

def canonNode : Node → List CItem
  | .run r => canonRun r
  | .ins rev ch => .insOpen rev :: ch.flatMap canonInsChild ++ [.insClose]
  | .del rev runs => .delOpen rev :: runs.flatMap canonRun ++ [.delClose]
  | .cs id => [.cs id]
  | .ce id => [.ce id]
  | .proof _ => []                 -- proofing marks are the one thing normalisation may drop
  | .hl a runs => .hlOpen a :: runs.flatMap canonRun ++ [.hlClose]
  | .other x => [.other x]

def canonNodes (ns : List Node) : List CItem := ns.flatMap canonNode

end Adeu.Doc

namespace Adeu.Doc
open Adeu

/-- The whole content of a story as one token stream: everything except run boundaries. -/
inductive DItem
  | c (x : CItem)
  | paraOpen (style : Option Str) (ppr : Str) | paraClose
  | tblOpen (pr grid : Str) | tblClose
  | rowOpen (pr : Str) | rowClose
  | cellOpen (pr : Str) (span : Nat) (vm : VM) | cellClose
  | otherBlock (xml : Str)
deriving Repr, DecidableEq, Inhabited

mutual
  def streamBlocks : List Block → List DItem
    | [] => []
    | .para p :: rest =>
      .paraOpen p.style p.ppr :: (canonNodes p.nodes).map .c ++ [.paraClose] ++ streamBlocks rest
    | .table pr g rows :: rest => .tblOpen pr g :: streamRows rows ++ [.tblClose] ++ streamBlocks rest
    | .other x :: rest => .otherBlock x :: streamBlocks rest
  def streamRows : List Row → List DItem
    | [] => []
    | .mk pr cells :: rest => .rowOpen pr :: streamCells cells ++ [.rowClose] ++ streamRows rest
  def streamCells : List Cell → List DItem
    | [] => []
    | .mk pr s v bs :: rest => .cellOpen pr s v :: streamBlocks bs ++ [.cellClose] ++ streamCells rest
end

structure CanonDoc where
  headers : List (Str × List DItem)
  body : List DItem
  footers : List (Str × List DItem)
deriving Repr, DecidableEq

def canonDoc (d : Document) : CanonDoc :=
  { headers := d.headers.map fun s => (s.ty, streamBlocks s.blocks),
    body := streamBlocks d.body,
    footers := d.footers.map fun s => (s.ty, streamBlocks s.blocks) }

end Adeu.Doc
