import AdeuModel.Model.Json
/-
Model of `adeu.cli.handle_init`: the sequence of file-system operations it performs on the
configuration file `cfg` and the backup `bak` next to it, for every prior state and both modes.
The final write is modelled byte by byte, so a crash after any prefix of the operation list is a
crash at any file-system operation or in the middle of the write.

Parameters (Python, monitored by the harness): decoding/`json.loads` of the previous content (the
prior state arrives classified), the interpreter path / working directory of `--local`.
-/
namespace Adeu.Init
open Adeu J

abbrev Bytes := List UInt8

/-- What `handle_init` finds. -/
inductive Prior where
  | absent
  | undecodable (raw : Bytes)          -- not UTF-8: `UnicodeDecodeError` escapes (not a JSONDecodeError)
  | blank (raw : Bytes)                -- empty after `.strip()`
  | invalid (raw : Bytes)              -- `json.JSONDecodeError`: "Starting fresh"
  | value (raw : Bytes) (v : J)
deriving Repr, Inhabited

def Prior.raw : Prior → Option Bytes
  | .absent => none
  | .undecodable r | .blank r | .invalid r | .value r _ => some r

inductive Op where
  | bakTrunc                 -- copy2 opens the backup for writing (create / truncate)
  | bakAppend (b : UInt8)
  | mkdir
  | cfgTrunc                 -- `open(cfg, "w")`
  | cfgAppend (b : UInt8)
deriving Repr, DecidableEq, Inhabited

structure St where
  cfg : Option Bytes
  bak : Option Bytes
  dir : Bool
deriving Repr, DecidableEq, Inhabited

def step (s : St) : Op → St
  | .bakTrunc => { s with bak := some [] }
  | .bakAppend b => { s with bak := s.bak.map (· ++ [b]) }
  | .mkdir => { s with dir := true }
  | .cfgTrunc => { s with cfg := some [] }
  | .cfgAppend b => { s with cfg := s.cfg.map (· ++ [b]) }

def exec (s : St) (ops : List Op) : St := ops.foldl step s

inductive Outcome where
  | ok
  | unicodeError            -- raised while reading
  | attributeError          -- top level is not an object: `data.setdefault` does not exist
  | typeError               -- `mcpServers` is not an object: item assignment fails
deriving Repr, DecidableEq, Inhabited

def defaultData : J := .obj [("mcpServers".toList, .obj [])]

def mcpKey : Str := "mcpServers".toList
def adeuKey : Str := "adeu".toList

/-- `mcp_servers = data.setdefault("mcpServers", {}); mcp_servers["adeu"] = entry` -/
def setAdeu (entry : J) : J → Except Outcome J
  | .obj kvs =>
    match lookup mcpKey kvs with
    | none => .ok (.obj (kvs ++ [(mcpKey, .obj [(adeuKey, entry)])]))
    | some (.obj servers) => .ok (.obj (setKey mcpKey (.obj (setKey adeuKey entry servers)) kvs))
    | some _ => .error .typeError
  | _ => .error .attributeError

def toBytes (s : Str) : Bytes := s.map fun c => c.toNat.toUInt8

def backupOps : Option Bytes → List Op
  | none => []
  | some raw => .bakTrunc :: raw.map .bakAppend

def writeOps (v : J) : List Op :=
  .mkdir :: .cfgTrunc :: (toBytes (dump 0 v)).map .cfgAppend

/-- The data the command starts from. -/
def startData : Prior → Except Outcome J
  | .absent | .blank _ | .invalid _ => .ok defaultData
  | .undecodable _ => .error .unicodeError
  | .value _ v => .ok v

def handleInit (entry : J) (prior : Prior) : List Op × Outcome :=
  let b := backupOps prior.raw
  match startData prior >>= setAdeu entry with
  | .ok v => (b ++ writeOps v, .ok)
  | .error e => (b, e)

def initSt (prior : Prior) : St := { cfg := prior.raw, bak := none, dir := prior.raw.isSome }

/-- State after a crash that lets exactly the first `k` operations happen. -/
def crashAfter (entry : J) (prior : Prior) (k : Nat) : St :=
  exec (initSt prior) ((handleInit entry prior).1.take k)

def localEntry (python cwd : Str) : J :=
  .obj [("command".toList, .str python),
        ("args".toList, .arr [.str "-m".toList, .str "adeu.server".toList]),
        ("cwd".toList, .str cwd)]

def prodEntry : J :=
  .obj [("command".toList, .str "uvx".toList),
        ("args".toList, .arr [.str "--from".toList, .str "adeu".toList, .str "adeu-server".toList])]

end Adeu.Init
