import AdeuModel.Model.Engine
import AdeuModel.Model.Markup
/-
Layer E — the heuristic (search-and-replace) path of the engine, which is what the MCP tool
`apply_structured_edits` and `adeu apply` with a JSON batch use:
`RedlineEngine._apply_single_edit_heuristic`, `DocumentMapper.find_match_index` (literal stages),
`_to_raw_range`, `_ranges_after_edit`, and `apply_edits` for mixed batches (indexed edits first, then
the heuristic edits by descending target length with conflict tracking).

External parameters, recorded per edit from the implementation: the result of the non-literal stages
of `find_match_index` (Markdown-stripped target and fuzzy regular expression) in the raw view
(`fzRaw`) and in the accepted view (`fzClean`), each `(start, length)`.
-/
namespace Adeu.Doc
open Adeu

/-- `DocumentMapper.find_match_index`: exact, then smart-quote-normalised (length of the *target*), then
— unless `exactOnly` — the recorded result of the non-literal stages -/
def findMatchIndex (text target : Str) (exactOnly : Bool) (fz : Option (Nat × Nat)) : Option (Nat × Nat) :=
  match Markup.find target text with
  | some i => some (i, target.length)
  | none =>
    match Markup.find (Markup.replaceSmart target) (Markup.replaceSmart text) with
    | some i => some (i, target.length)
    | none => if exactOnly then none else fz

/-- an edit as submitted to `apply_edits`: with `index` it is addressed by offset, without it is searched -/
structure HEdit where
  target : Str
  new : Str
  comment : Option Str := none
  index : Option Nat := none
  fzRaw : Option (Nat × Nat) := none
  fzClean : Option (Nat × Nat) := none
deriving Repr, Inhabited

def ospansText (spans : List OSpan) : Str := spans.flatMap (·.sp.text)

/-- `raw_pos` of `_to_raw_range`: position in the raw map of offset `pos` of span `o` of the accepted-view map -/
def rawPosGo (o : OSpan) : List OSpan → Nat → Option Nat
  | [], _ => none
  | rs :: rest, off =>
    if rs.sp.run.isSome && rs.sp.run == o.sp.run then
      if off ≤ rs.sp.text.length then some (rs.start + off) else rawPosGo o rest (off - rs.sp.text.length)
    else rawPosGo o rest off

def rawPos (rawSpans cleanSpans : List OSpan) (o : OSpan) (pos : Nat) : Option Nat :=
  rawPosGo o rawSpans (offsetInRun cleanSpans o + (min pos o.stop - o.start))

/-- `_to_raw_range` for a range of the accepted-view map -/
def toRawRange (rawSpans cleanSpans : List OSpan) (a b : Nat) : Option (Nat × Nat) :=
  let real := cleanSpans.filter fun o => o.real && o.stop > a && o.start < b
  match real.head?, real.getLast? with
  | some f, some l =>
    match rawPos rawSpans cleanSpans f a, rawPos rawSpans cleanSpans l b with
    | some lo, some hi => some (lo, max lo hi)
    | _, _ => none
  | _, _ => none

structure HMatch where
  clean : Bool
  start : Nat
  len : Nat
deriving Repr, DecidableEq, Inhabited

/-- the lookup order of `_apply_single_edit_heuristic`: literal in the raw view (unless it touches deleted
text), literal in the accepted view, then the non-literal stages in the same order -/
def locate (s : Sess) (e : HEdit) : Option HMatch :=
  let raw := s.spans false
  let rawText := ospansText raw
  let cleanText := ospansText (s.spans true)
  let rawTry (exact : Bool) : Option (Nat × Nat) :=
    match findMatchIndex rawText e.target exact e.fzRaw with
    | some (a, l) => if touchesDeletion raw a (a + l) then none else some (a, l)
    | none => none
  match rawTry true with
  | some (a, l) => some ⟨false, a, l⟩
  | none =>
    match findMatchIndex cleanText e.target true e.fzClean with
    | some (a, l) => some ⟨true, a, l⟩
    | none =>
      match rawTry false with
      | some (a, l) => some ⟨false, a, l⟩
      | none =>
        match findMatchIndex cleanText e.target false e.fzClean with
        | some (a, l) => some ⟨true, a, l⟩
        | none => none

def overlapsAny (occ : List (Nat × Nat)) (a b : Nat) : Bool := occ.any fun (os, oe) => a < oe && b > os

/-- `_proxy_for_insertion` once the insertion is known: the range (possibly empty) is rewritten as a replacement of
that whole insertion (its text with the range replaced), addressed in raw coordinates -/
def nestedProxyWith (s : Sess) (clean : Bool) (start len : Nat) (new : Str) (comment : Option Str) (id : Str) :
    Option (Sess × Bool) :=
  let raw := s.spans false
  let act := s.spans clean
  let insSp := act.filter fun o => o.sp.insId == some id
  let rawIns := raw.filter fun o => o.sp.insId == some id
  let full := ospansText insSp
  match (if full.isEmpty then none else rawIns.head?), rawIns.getLast? with
  | some r0, some r1 =>
    let expanded := full.take (insCharsBefore insSp start) ++ new ++ full.drop (insCharsBefore insSp (start + len))
    -- the proxy addresses the whole extent of the insertion in the raw text (markers between its runs included)
    some (applyIndexed s false r0.start (r1.stop - r0.start) expanded comment none)
  | _, _ => none

/-- `_proxy_for_insertion`: a range that lies inside one pending insertion replaces that insertion; `none` when it
does not -/
def nestedProxyAt (s : Sess) (clean : Bool) (start len : Nat) (new : Str) (comment : Option Str) : Option (Sess × Bool) :=
  match insertionEnclosing (s.spans clean) start (start + len) with
  | some id => nestedProxyWith s clean start len new comment id
  | none => none

/-- new text that goes strictly inside a pending insertion becomes part of it -/
def nestedInsertAt (s : Sess) (clean : Bool) (start : Nat) (new : Str) (comment : Option Str) : Option (Sess × Bool) :=
  if new.isEmpty then none
  else
    match insertionAround (s.spans clean) start with
    | some id => nestedProxyWith s clean start 0 new comment id
    | none => none

/-- the effective edit after the match: no-op, extension → insertion at the end of the match, otherwise
context trimming (`_trim_common_context`) and the operation the remainder calls for; a changed part that
lies inside a pending insertion (although the quoted context does not) replaces that insertion -/
def heuristicDirect (s : Sess) (m : HMatch) (e : HEdit) : Sess × Bool :=
  let actText := ospansText (s.spans m.clean)
  let actual := (actText.drop m.start).take m.len
  if actual = e.new then (s, true)
  else if actual.isPrefixOf e.new then
    match nestedInsertAt s m.clean (m.start + m.len) (e.new.drop actual.length) e.comment with
    | some r => r
    | none => applyIndexed s m.clean (m.start + m.len) 0 (e.new.drop actual.length) e.comment (some .insertion)
  else
    let pq := Trim.trim Trim.pyIsSpace actual e.new
    let ft := (actual.take (actual.length - pq.2)).drop pq.1
    let fn := (e.new.take (e.new.length - pq.2)).drop pq.1
    if ft.isEmpty && fn.isEmpty then (s, true)
    else
      let nested := if ft.isEmpty then nestedInsertAt s m.clean (m.start + pq.1) fn e.comment
                    else nestedProxyAt s m.clean (m.start + pq.1) ft.length fn e.comment
      match nested with
      | some r => r
      | none =>
        let op : EOp := if ft.isEmpty then .insertion else if fn.isEmpty then .deletion else .modification
        applyIndexed s m.clean (m.start + pq.1) ft.length fn e.comment (some op)

/-- the whole match lies in a pending insertion -/
def nestedProxy (s : Sess) (m : HMatch) (e : HEdit) : Option (Sess × Bool) :=
  nestedProxyAt s m.clean m.start m.len e.new e.comment

/-- what `_apply_single_edit_heuristic` does once the match is accepted -/
def heuristicApplyAt (s : Sess) (m : HMatch) (e : HEdit) : Sess × Bool :=
  match nestedProxy s m e with
  | some r => r
  | none => heuristicDirect s m e

/-- the matched range in raw coordinates (`_to_raw_range`) -/
def matchRawRange (s : Sess) (m : HMatch) : Option (Nat × Nat) :=
  if m.clean then toRawRange (s.spans false) (s.spans true) m.start (m.start + m.len)
  else some (m.start, m.start + m.len)

def conflicts (occ : List (Nat × Nat)) (rr : Option (Nat × Nat)) : Bool :=
  match rr with | some (a, b) => overlapsAny occ a b | none => false

/-- `_apply_single_edit_heuristic`: (session, applied?, matched range in raw coordinates) -/
def applyHeuristic (s : Sess) (occ : List (Nat × Nat)) (e : HEdit) : Sess × Bool × Option (Nat × Nat) :=
  if e.target.isEmpty then (s, false, none)
  else
    match locate s e with
    | none => (s, false, none)
    | some m =>
      if conflicts occ (matchRawRange s m) then (s, false, none)
      else
        let r := heuristicApplyAt s m e
        (r.1, r.2, matchRawRange s m)

/-- `_ranges_after_edit` -/
def rangesAfterEdit (ranges : List (Nat × Nat)) (matched : Option (Nat × Nat)) (before after : Str) :
    List (Nat × Nat) :=
  if before = after then ranges ++ (match matched with | some m => [m] | none => [])
  else
    let limit := min before.length after.length
    let lcp := Trim.commonPrefixLen before after
    let lcs := min (limit - lcp) (Trim.commonPrefixLen before.reverse after.reverse)
    let lo0 := lcp
    let hi0 := before.length - lcs
    let (lo, oldHi) := match matched with | some (a, b) => (min lo0 a, max hi0 b) | none => (lo0, hi0)
    let sh (x : Nat) : Nat := x + after.length - before.length
    (ranges.map fun (s, e) =>
      if s ≥ oldHi then (sh s, sh e)
      else if e > lo then (min s lo, sh (max e oldHi))
      else (s, e)) ++ [(lo, sh oldHi)]

def heuristicStep (acc : Sess × Nat × Nat × List (Nat × Nat)) (e : HEdit) : Sess × Nat × Nat × List (Nat × Nat) :=
  let (s, ap, sk, occ) := acc
  let before := ospansText (s.spans false)
  let (s', ok, matched) := applyHeuristic s occ e
  if ok then (s', ap + 1, sk, rangesAfterEdit occ matched before (ospansText (s'.spans false)))
  else (s', ap, sk + 1, occ)

def HEdit.toIndexed (e : HEdit) : Option IEdit :=
  e.index.map fun i => { index := i, target := e.target, new := e.new, comment := e.comment }

/-- `RedlineEngine.apply_edits`: indexed edits first, then the others by descending target length (stable) -/
def applyEdits (s : Sess) (edits : List HEdit) : Sess × Nat × Nat :=
  let r := applyEditsIndexedFull s (edits.filterMap HEdit.toIndexed)
  let un := (edits.filter (·.index.isNone)).mergeSort fun a b => a.target.length ≥ b.target.length
  let r2 := un.foldl heuristicStep r
  (r2.1, r2.2.1, r2.2.2.1)

end Adeu.Doc
