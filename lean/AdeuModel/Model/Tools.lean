/-
Model of the tool front-ends (`adeu.server` MCP tools, `adeu.cli` commands) as far as C17 is
concerned: which internal steps a call goes through, where a failure of the k-th step leaves the
file system, what is returned.  The library call itself (engine / reader / preview) is a parameter:
`nCompute` internal calls that touch no file, and the content `result` it produces.

The file system is a function from paths to contents; the save protocol is modelled step by step
(temporary sibling file, write, move into place, removal of the temporary file on failure).
-/
namespace Adeu.Tools

abbrev Path := String
abbrev FS := Path → Option String

def FS.write (fs : FS) (p : Path) (c : String) : FS := fun q => if q = p then some c else fs q
def FS.remove (fs : FS) (p : Path) : FS := fun q => if q = p then none else fs q

inductive SrcState | valid | missing | notDocx | corrupt
deriving Repr, DecidableEq, Inhabited

inductive Tool
  | readDocx | diffDocx | applyEdits | reviewActions | acceptAll | markupMd        -- MCP tools
  | cliApply | cliMarkup | cliExtract | cliDiff                                    -- CLI commands
deriving Repr, DecidableEq, Inhabited

/-- a path split the way `pathlib` does: directory, stem, suffix -/
structure P where
  dir : String
  stem : String
  suffix : String
deriving Repr, DecidableEq, Inhabited

def P.str (p : P) : Path := p.dir ++ "/" ++ p.stem ++ p.suffix

inductive Outcome | ok | error
deriving Repr, DecidableEq, Inhabited

structure Req where
  tool : Tool
  src : P
  srcState : SrcState
  out : Option Path          -- explicit output path
  authorOk : Bool            -- MCP tools that take an author reject an empty one
  nCompute : Nat             -- internal calls after reading the source and before saving
  skipped : Nat              -- edits / actions the library reported skipped
  result : String            -- what the library produces for this input
  fault : Option Nat         -- index of the internal step that fails (none: no failure)
  tmp : Path                 -- name of the temporary sibling file the save protocol uses
deriving Repr, Inhabited

def Tool.writes : Tool → Bool
  | .readDocx | .diffDocx | .cliExtract | .cliDiff => false
  | _ => true

def Tool.needsAuthor : Tool → Bool
  | .applyEdits | .reviewActions => true
  | _ => false

/-- the documented default output names -/
def defaultOut (t : Tool) (p : P) : Path :=
  match t with
  | .applyEdits => if p.stem.endsWith "_redlined" then p.str else p.dir ++ "/" ++ p.stem ++ "_redlined" ++ p.suffix
  | .cliApply => if p.stem.endsWith "_redlined" then p.str else p.dir ++ "/" ++ p.stem ++ "_redlined.docx"
  | .reviewActions => if p.stem.endsWith "_reviewed" then p.str else p.dir ++ "/" ++ p.stem ++ "_reviewed" ++ p.suffix
  | .acceptAll => p.dir ++ "/" ++ p.stem ++ "_clean" ++ p.suffix
  | .markupMd => p.dir ++ "/" ++ p.stem ++ "_markup.md"
  | .cliMarkup => if p.suffix.toLower = ".md" then p.dir ++ "/" ++ p.stem ++ "_markup.md" else p.dir ++ "/" ++ p.stem ++ ".md"
  | _ => p.str

def outPath (r : Req) : Path := r.out.getD (defaultOut r.tool r.src)

/-- the save protocol: steps `base` (create the temporary file), `base+1` (write it), `base+2`
(move it into place); a failure removes the temporary file again -/
def save (fs : FS) (out tmp : Path) (data : String) (fault : Option Nat) (base : Nat) : Outcome × FS :=
  if fault = some base then (.error, fs)
  else if fault = some (base + 1) then (.error, ((fs.write tmp "").remove tmp))
  else if fault = some (base + 2) then (.error, ((fs.write tmp data).remove tmp))
  else (.ok, ((fs.write tmp data).remove tmp).write out data)

/-- the pinned (4fd4704) protocol: open the output for writing (truncating it), then write -/
def savePinned (fs : FS) (out : Path) (data : String) (fault : Option Nat) (base : Nat) : Outcome × FS :=
  if fault = some base then (.error, fs)
  else if fault = some (base + 1) then (.error, fs.write out "")
  else (.ok, fs.write out data)

/-- the failing step is one of the library calls 1..n -/
def inCompute (fault : Option Nat) (n : Nat) : Bool :=
  match fault with
  | some k => decide (1 ≤ k ∧ k ≤ n)
  | none => false

/-- One call.  Step 0 reads the source, steps 1..nCompute are library calls, then the save. -/
def run (r : Req) (fs : FS) : Outcome × FS :=
  if r.tool.needsAuthor && !r.authorOk then (.error, fs)
  else if r.srcState = .missing || fs r.src.str = none then (.error, fs)
  else if r.fault = some 0 then (.error, fs)
  else if r.srcState ≠ .valid then (.error, fs)                    -- the first library call rejects it
  else if inCompute r.fault r.nCompute then (.error, fs)
  else if !r.tool.writes then (.ok, fs)
  else save fs (outPath r) r.tmp r.result r.fault (r.nCompute + 1)

/-- process exit status of a CLI command: non-zero exactly on an error or when something was skipped -/
def exitCode (r : Req) (fs : FS) : Nat :=
  match (run r fs).1 with
  | .error => 1
  | .ok => if r.tool = .cliApply && r.skipped > 0 then 1 else 0

end Adeu.Tools
