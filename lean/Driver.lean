import Lean.Data.Json
import AdeuModel.Model.Heuristic
import AdeuModel.Model.Str
import AdeuModel.Model.Diff
import AdeuModel.Model.Trim
import AdeuModel.Model.Init
import AdeuModel.DriverDoc
import AdeuModel.Model.Mapper
import AdeuModel.Model.ExtractSegs
import AdeuModel.Model.ShownShape
import AdeuModel.Model.Engine
import AdeuModel.Model.Markup
import AdeuModel.Model.Tools
import AdeuModel.Model.Package
import AdeuModel.Model.History
/-
Line protocol driver: one JSON object per input line, one JSON result per output line.
Imports model files only (never Lemmas/Props), so it can be compiled to a native executable.
-/
open Lean Adeu

def strJ (s : Str) : Json := Json.str (String.ofList s)

def editJ (e : Edit) : Json :=
  Json.mkObj [("idx", toJson e.idx), ("target", strJ e.target), ("new", strJ e.new)]

def getStr (j : Json) (k : String) : Except String Str := do
  let s ← j.getObjValAs? String k
  pure s.toList

def parseOp (s : String) : Except String Diff.Op :=
  match s with
  | "eq" => pure .eq | "del" => pure .del | "ins" => pure .ins
  | _ => throw s!"bad diff op {s}"

def parseDiffs (j : Json) : Except String Diff.DiffList := do
  let arr ← j.getObjValAs? (Array Json) "diffs"
  arr.toList.mapM fun d => do
    let o ← d.getObjValAs? String "o"
    let t ← d.getObjValAs? String "t"
    pure (← parseOp o, t.toList)

def handleDiff (j : Json) : Except String Json := do
  let ds ← parseDiffs j
  let es := Diff.editsOfRaw ds
  let orig := Diff.src ds
  pure <| Json.mkObj [
    ("edits", Json.arr (es.map editJ).toArray),
    ("src", strJ orig), ("dst", strJ (Diff.dst ds)),
    ("split", Json.arr ((Diff.splitDiffs ds).map fun (o, t) => Json.mkObj [("o", toJson (match o with | .eq => "eq" | .del => "del" | .ins => "ins")), ("t", strJ t)]).toArray),
    ("hyp", Json.mkObj [("Normal", toJson (Diff.noDelDelB ds))]),
    ("concl", Json.mkObj [
      ("apply", toJson (applyEdits orig es == Diff.dst ds)),
      ("sorted", toJson (sortedFromB 0 es)),
      ("targets_at", toJson (targetsAtB orig es))])]


/-! ### trim -/
def handleTrim (j : Json) : Except String Json := do
  let t ← getStr j "t"
  let n ← getStr j "n"
  let (p, s) := Trim.trim Trim.pyIsSpace t n
  pure <| Json.mkObj [("p", toJson p), ("s", toJson s)]

def handleIsSpace (j : Json) : Except String Json := do
  -- returns the code points (below `hi`) that the model's table classifies as whitespace
  let hi ← j.getObjValAs? Nat "hi"
  let xs := (List.range hi).filter fun n => Trim.pyIsSpace (Char.ofNat n) && (Char.ofNat n).toNat == n
  pure <| Json.mkObj [("spaces", toJson xs)]

def handleIsWord (j : Json) : Except String Json := do
  -- the ranges of code points below `hi` that the model's table classifies as `\w`, as [lo, hi] pairs
  let hi ← j.getObjValAs? Nat "hi"
  let step := fun (acc : List (Nat × Nat) × Option Nat) (n : Nat) =>
    let w := pyIsWord (Char.ofNat n) && (Char.ofNat n).toNat == n
    match acc.2, w with
    | none, true => (acc.1, some n)
    | some a, false => ((a, n - 1) :: acc.1, none)
    | _, _ => acc
  let (rs, last) := (List.range hi).foldl step ([], none)
  let rs := match last with | some a => (a, hi - 1) :: rs | none => rs
  pure <| Json.mkObj [("ranges", toJson (rs.reverse.map fun (a, b) => [a, b]))]

/-! ### init -/
partial def parseJ (j : Json) : Except String J := do
  let t ← j.getObjValAs? String "t"
  match t with
  | "null" => pure .null
  | "bool" => pure (.bool (← j.getObjValAs? Bool "b"))
  | "num" => pure (.num (← j.getObjValAs? String "r").toList)
  | "str" => pure (.str (← j.getObjValAs? String "s").toList)
  | "arr" => do
      let xs ← j.getObjValAs? (Array Json) "xs"
      pure (.arr (← xs.toList.mapM parseJ))
  | "obj" => do
      let kvs ← j.getObjValAs? (Array Json) "kvs"
      let l ← kvs.toList.mapM fun kv => do
        let k ← kv.getObjValAs? String "k"
        let v ← kv.getObjVal? "v"
        pure (k.toList, ← parseJ v)
      pure (.obj l)
  | _ => throw s!"bad J tag {t}"

def hexVal (c : Char) : Nat :=
  if '0' ≤ c ∧ c ≤ '9' then c.toNat - 48 else if 'a' ≤ c ∧ c ≤ 'f' then c.toNat - 87 else 0

def unhex : List Char → Init.Bytes
  | a :: b :: r => (hexVal a * 16 + hexVal b).toUInt8 :: unhex r
  | _ => []

def bytesOf (j : Json) (k : String) : Except String Init.Bytes := do
  let a ← j.getObjValAs? String k
  pure (unhex a.toList)

def parsePrior (j : Json) : Except String Init.Prior := do
  let kind ← j.getObjValAs? String "kind"
  match kind with
  | "absent" => pure .absent
  | "undecodable" => pure (.undecodable (← bytesOf j "raw"))
  | "blank" => pure (.blank (← bytesOf j "raw"))
  | "invalid" => pure (.invalid (← bytesOf j "raw"))
  | "value" => do
      let v ← j.getObjVal? "v"
      pure (.value (← bytesOf j "raw") (← parseJ v))
  | _ => throw s!"bad prior kind {kind}"

def hexOf (l : Init.Bytes) : String :=
  String.ofList (l.flatMap fun x => [J.hexDigit (x.toNat / 16), J.hexDigit (x.toNat % 16)])

def bytesJ (b : Option Init.Bytes) : Json :=
  match b with
  | none => Json.null
  | some l => Json.str (hexOf l)

def stJ (s : Init.St) : Json :=
  Json.mkObj [("cfg", bytesJ s.cfg), ("bak", bytesJ s.bak), ("dir", toJson s.dir)]

def outcomeStr : Init.Outcome → String
  | .ok => "ok" | .unicodeError => "UnicodeDecodeError" | .attributeError => "AttributeError"
  | .typeError => "TypeError"

def findCrash (cmpDir : Bool) (obs : Init.St) : Init.St → List Init.Op → Nat → Option Nat
  | s, ops, k =>
    if s.cfg == obs.cfg && s.bak == obs.bak && (!cmpDir || s.dir == obs.dir) then some k
    else match ops with
      | [] => none
      | op :: r => findCrash cmpDir obs (Init.step s op) r (k + 1)

def parseSt (j : Json) : Except String Init.St := do
  let optB (k : String) : Except String (Option Init.Bytes) :=
    match j.getObjVal? k with
    | .ok Json.null => pure none
    | .ok _ => do pure (some (← bytesOf j k))
    | .error _ => pure none
  pure { cfg := ← optB "cfg", bak := ← optB "bak", dir := (j.getObjValAs? Bool "dir").toOption.getD true }

def handleInitOp (j : Json) : Except String Json := do
  let mode ← j.getObjValAs? String "mode"
  let entry ← match mode with
    | "local" => do pure (Init.localEntry (← getStr j "python") (← getStr j "cwd"))
    | _ => pure Init.prodEntry
  let prior ← parsePrior (← j.getObjVal? "prior")
  let (ops, out) := Init.handleInit entry prior
  let fin := Init.exec (Init.initSt prior) ops
  let cmpDir := (j.getObjValAs? Bool "cmp_dir").toOption.getD false
  let obsArr := (j.getObjValAs? (Array Json) "observed").toOption.getD #[]
  let found ← obsArr.toList.mapM fun o => do
    let st ← parseSt o
    pure (match findCrash cmpDir st (Init.initSt prior) ops 0 with
      | some k => toJson k
      | none => Json.null)
  -- theorem instances evaluated on this case
  let crashSafe := match prior.raw with
    | none => true
    | some c => (List.range (ops.length + 1)).all fun k =>
        let s := Init.crashAfter entry prior k
        s.cfg == some c || s.bak == some c
  pure <| Json.mkObj [("outcome", toJson (outcomeStr out)), ("nops", toJson ops.length),
    ("final", stJ fin), ("found", Json.arr found.toArray),
    ("concl", Json.mkObj [("crash_safe_all_k", toJson crashSafe)])]

def handleExtract (j : Json) : Except String Json := do
  let d0 ← DriverDoc.parseDoc (← j.getObjVal? "doc")
  let d := Doc.normalize d0
  let raw := Doc.extractText false d
  let clean := Doc.extractText true d
  let mraw := Doc.mapperText false d
  let mclean := Doc.mapperText true d
  pure <| Json.mkObj [("raw", strJ raw), ("clean", strJ clean), ("map_raw", strJ mraw), ("map_clean", strJ mclean),
    ("raw_unnormalized", strJ (Doc.extractText false d0)),
    -- C04: hypothesis of C04_document_read_accepted_partial and its conclusion on this document
    ("concl", Json.mkObj [("text_eq_raw", toJson (raw == mraw)), ("text_eq_clean", toJson (clean == mclean)),
      ("hyp_document_in_domain", toJson (Doc.domDoc d)),
      ("raw_read_with_all_accepted_eq_clean",
        toJson (match Markup.parse raw with | some segs => Markup.acceptView segs == clean | none => false)),
      ("hyp_document_in_domain_and_read_accepted_eq_clean",
        toJson (Doc.domDoc d && (match Markup.parse raw with | some segs => Markup.acceptView segs == clean | none => false)))])]

def handleNormalize (j : Json) : Except String Json := do
  let d0 ← DriverDoc.parseDoc (← j.getObjVal? "doc")
  let d := Doc.normalize d0
  pure <| Json.mkObj [("doc", DriverDoc.docStoriesJ d),
    ("concl", Json.mkObj [("idempotent", toJson ((DriverDoc.docStoriesJ (Doc.normalize d)).compress == (DriverDoc.docStoriesJ d).compress))])]

def handleApplyIndexed (j : Json) : Except String Json := do
  let d0 ← DriverDoc.parseDoc (← j.getObjVal? "doc")
  let author ← getStr j "author"
  let edits ← (← j.getObjValAs? (Array Json) "edits").toList.mapM fun e => do
    let idx ← e.getObjValAs? Nat "index"
    let t ← getStr e "target"
    let n ← getStr e "new"
    let c := match e.getObjVal? "comment" with | .ok (Json.str x) => some x.toList | _ => none
    pure ({ index := idx, target := t, new := n, comment := c } : Doc.IEdit)
  let s0 := Doc.Sess.open d0 author "DATE".toList
  let (s1, ap, sk) := Doc.applyEditsIndexed s0 edits
  pure <| Json.mkObj [("doc", DriverDoc.docFullJ s1.doc), ("applied", toJson ap), ("skipped", toJson sk)]

/-- `apply_edits` for a mixed batch: edits with "index" are addressed by offset, the others are searched;
"fz_raw" / "fz_clean" carry the recorded result of the non-literal matching stages -/
def optPair (e : Json) (k : String) : Option (Nat × Nat) :=
  match e.getObjVal? k with
  | .ok (Json.arr a) =>
    match a[0]?, a[1]? with
    | some x, some y => match x.getNat?, y.getNat? with
      | .ok p, .ok q => some (p, q)
      | _, _ => none
    | _, _ => none
  | _ => none

def handleApplyEdits (j : Json) : Except String Json := do
  let d0 ← DriverDoc.parseDoc (← j.getObjVal? "doc")
  let author ← getStr j "author"
  let edits ← (← j.getObjValAs? (Array Json) "edits").toList.mapM fun e => do
    let idx : Option Nat := match e.getObjVal? "index" with | .ok v => v.getNat?.toOption | _ => none
    let t ← getStr e "target"
    let n ← getStr e "new"
    let c := match e.getObjVal? "comment" with | .ok (Json.str x) => some x.toList | _ => none
    pure ({ index := idx, target := t, new := n, comment := c, fzRaw := optPair e "fz_raw", fzClean := optPair e "fz_clean" } : Doc.HEdit)
  let s0 := Doc.Sess.open d0 author "DATE".toList
  let (s1, ap, sk) := Doc.applyEdits s0 edits
  -- hypotheses / conclusions of the C08 / C01 / C10 batch theorems evaluated on this case (non-vacuity counts)
  let noneApplied := ap == 0 && !edits.isEmpty
  let contentSame := (DriverDoc.docStoriesJ s1.doc).compress == (DriverDoc.docStoriesJ s0.doc).compress
  let commentsGrow : Bool := decide (s0.doc.comments.length ≤ s1.doc.comments.length)
  -- hypotheses of the comment theorems (C09 / C10): linked comment parts, pairwise distinct comment ids
  let linkedB (d : Doc.Document) : Bool :=
    d.comments.map (fun c => c.paras.getLast?.bind (·.paraId)) == d.commentsEx.map (·.paraId) &&
    d.commentsEx.map (·.paraId) == d.commentsIds.map (fun i => some i.1) &&
    d.commentsIds.map (·.2) == d.commentsCex.map (·.1)
  let nodupB (d : Doc.Document) : Bool := (d.comments.map (·.id)).eraseDups.length == d.comments.length
  let added := s1.doc.comments.length - s0.doc.comments.length
  -- C10 shown-with theorems: shapes in the result whose hypotheses hold / whose conclusion holds (reader model)
  let shown := Doc.shownCountsDoc s1.doc
  pure <| Json.mkObj [("doc", DriverDoc.docFullJ s1.doc), ("applied", toJson ap), ("skipped", toJson sk),
    ("concl", Json.mkObj [("hyp_none_applied", toJson noneApplied),
      ("hyp_commented_change_shape_in_result", toJson (decide (shown.1 > 0))),
      ("commented_change_shape_shown_with_change", toJson (decide (shown.1 > 0) && shown.1 == shown.2)),
      ("none_applied_and_content_same", toJson (noneApplied && contentSame)),
      ("total_ok", toJson (ap + sk == edits.length)),
      ("comments_only_grow", toJson commentsGrow),
      ("hyp_comment_parts_linked_and_comment_added", toJson (linkedB s0.doc && added > 0)),
      ("comment_parts_linked_after", toJson (linkedB s0.doc && added > 0 && linkedB s1.doc)),
      ("hyp_comment_ids_distinct_and_comment_added", toJson (nodupB s0.doc && added > 0 && !s0.doc.comments.isEmpty)),
      ("comment_ids_distinct_after", toJson (nodupB s0.doc && added > 0 && !s0.doc.comments.isEmpty && nodupB s1.doc))])]

def handleReview (j : Json) : Except String Json := do
  let d0 ← DriverDoc.parseDoc (← j.getObjVal? "doc")
  let author ← getStr j "author"
  let s0 := Doc.Sess.open d0 author "DATE".toList
  let acceptAll := (j.getObjValAs? Bool "accept_all").toOption.getD false
  if acceptAll then
    let s1 := s0.acceptAllRevisions
    pure <| Json.mkObj [("doc", DriverDoc.docFullJ s1.doc), ("applied", toJson (0 : Nat)), ("skipped", toJson (0 : Nat))]
  else
    let acts ← (← j.getObjValAs? (Array Json) "actions").toList.mapM fun a => do
      let k ← a.getObjValAs? String "action"
      let kind ← match k with
        | "ACCEPT" => pure Doc.ActKind.accept | "REJECT" => pure Doc.ActKind.reject | "REPLY" => pure Doc.ActKind.reply
        | _ => throw s!"bad action {k}"
      let t ← getStr a "target_id"
      let txt := match a.getObjVal? "text" with | .ok (Json.str x) => some x.toList | _ => none
      pure ({ kind := kind, target := t, text := txt } : Doc.Action)
    let (s1, ap, sk) := s0.applyActions acts
    pure <| Json.mkObj [("doc", DriverDoc.docFullJ s1.doc), ("applied", toJson ap), ("skipped", toJson sk)]

def handleDiffApply (j : Json) : Except String Json := do
  let d0 ← DriverDoc.parseDoc (← j.getObjVal? "doc")
  let author ← getStr j "author"
  let ds ← parseDiffs j
  let es := Diff.editsOfRaw ds
  let notes := Diff.notesOfRaw ds
  let edits : List Doc.IEdit := (es.zip notes).map fun (e, n) =>
    { index := e.idx, target := e.target, new := e.new, comment := some n.toList }
  let s0 := Doc.Sess.open d0 author "DATE".toList
  let (s1, ap, sk) := Doc.applyEditsIndexed s0 edits
  pure <| Json.mkObj [("applied", toJson ap), ("skipped", toJson sk),
    ("edits", Json.arr ((es.zip notes).map fun (e, n) => Json.mkObj [("idx", toJson e.idx), ("target", strJ e.target), ("new", strJ e.new), ("comment", toJson n)]).toArray),
    ("src", strJ (Diff.src ds)), ("raw_before", strJ (Doc.extractText false s0.doc)),
    ("clean_after", strJ (Doc.extractText true s1.doc)), ("doc", DriverDoc.docFullJ s1.doc)]

/-! ### preview (C14) -/
def segJ (sg : Markup.Seg) : Json :=
  match sg with
  | .plain t => Json.arr #[Json.str "plain", strJ t]
  | .del t => Json.arr #[Json.str "del", strJ t]
  | .ins t => Json.arr #[Json.str "ins", strJ t]
  | .hl t => Json.arr #[Json.str "hl", strJ t]
  | .note t => Json.arr #[Json.str "meta", strJ t]

def handlePreview (j : Json) : Except String Json := do
  let text ← getStr j "text"
  let eds ← j.getObjValAs? (Array Json) "edits"
  let edits ← eds.toList.mapM fun e => do
    let fzj ← e.getObjVal? "fz"
    let fz : Option (Nat × Nat) ← match fzj with
      | Json.null => pure none
      | v => do
          let a ← v.getArrVal? 0 >>= fun x => x.getNat?
          let b ← v.getArrVal? 1 >>= fun x => x.getNat?
          pure (some (a, b))
    pure ({ target := ← getStr e "target", new := ← getStr e "new", comment := ← getStr e "comment", fz := fz } : Markup.MEdit)
  let o : Markup.Opts := { includeIndex := ← j.getObjValAs? Bool "include_index", highlightOnly := ← j.getObjValAs? Bool "highlight_only" }
  let segs := Markup.previewSegs text edits o
  let kept := Markup.keptDesc text edits
  pure <| Json.mkObj [
    ("out", strJ (Markup.previewStr text edits o)),
    ("render", strJ (Markup.render segs)),
    ("reject", strJ (Markup.rejectView segs)),
    ("read_reject", match Markup.parse (Markup.previewStr text edits o) with | some sg => strJ (Markup.rejectView sg) | none => Json.null),
    ("read_accept", match Markup.parse (Markup.previewStr text edits o) with | some sg => strJ (Markup.acceptView sg) | none => Json.null),
    ("accept", strJ (Markup.acceptView segs)),
    ("segs", Json.arr (segs.map segJ).toArray),
    ("matches", toJson ((Markup.matchesFrom text edits 0).map fun m => [m.s, m.e, m.idx])),
    ("kept", toJson (kept.map fun m => [m.s, m.e, m.idx]))]

/-! ### histories (C07) -/
def parseIEdit (e : Json) : Except String Doc.IEdit := do
  let idx ← e.getObjValAs? Nat "index"
  let t ← getStr e "target"
  let n ← getStr e "new"
  let c := match e.getObjVal? "comment" with | .ok (Json.str x) => some x.toList | _ => none
  pure { index := idx, target := t, new := n, comment := c }

def parseAction (a : Json) : Except String Doc.Action := do
  let k ← a.getObjValAs? String "action"
  let kind ← match k with
    | "ACCEPT" => pure Doc.ActKind.accept | "REJECT" => pure Doc.ActKind.reject | "REPLY" => pure Doc.ActKind.reply
    | _ => throw s!"bad action {k}"
  let t ← getStr a "target_id"
  let txt := match a.getObjVal? "text" with | .ok (Json.str x) => some x.toList | _ => none
  pure { kind := kind, target := t, text := txt }

def handleHistory (j : Json) : Except String Json := do
  let d0 ← DriverDoc.parseDoc (← j.getObjVal? "doc")
  let steps ← (← j.getObjValAs? (Array Json) "steps").toList.mapM fun st => do
    match (← st.getObjValAs? String "kind") with
    | "edits" => pure (Doc.Step.edits (← getStr st "author") (← (← st.getObjValAs? (Array Json) "edits").toList.mapM parseIEdit))
    | "actions" => pure (Doc.Step.actions (← getStr st "author") (← (← st.getObjValAs? (Array Json) "actions").toList.mapM parseAction))
    | "accept_all" => pure Doc.Step.acceptAll
    | k => throw s!"bad step {k}"
  let r := Doc.runHistory d0 steps
  pure <| Json.mkObj [("doc", DriverDoc.docFullJ r.1), ("counts", toJson (r.2.map fun c => [c.1, c.2])),
    ("reached", Json.arr ((Doc.reached d0 steps).map DriverDoc.docFullJ).toArray)]

/-! ### tool front-ends (C17) -/
def handleTool (j : Json) : Except String Json := do
  let tool : Tools.Tool ← match (← j.getObjValAs? String "tool") with
    | "readDocx" => pure .readDocx | "diffDocx" => pure .diffDocx | "applyEdits" => pure .applyEdits
    | "reviewActions" => pure .reviewActions | "acceptAll" => pure .acceptAll | "markupMd" => pure .markupMd
    | "cliApply" => pure .cliApply | "cliMarkup" => pure .cliMarkup | "cliExtract" => pure .cliExtract
    | "cliDiff" => pure .cliDiff
    | t => throw s!"bad tool {t}"
  let st : Tools.SrcState ← match (← j.getObjValAs? String "src_state") with
    | "valid" => pure .valid | "missing" => pure .missing | "not_docx" => pure .notDocx | "corrupt" => pure .corrupt
    | t => throw s!"bad state {t}"
  let out : Option String := match j.getObjVal? "out" with
    | .ok (Json.str p) => some p
    | _ => none
  let fault : Option Nat := match j.getObjVal? "fault" with
    | .ok v => (v.getNat?).toOption
    | _ => none
  let src : Tools.P := { dir := ← j.getObjValAs? String "dir", stem := ← j.getObjValAs? String "stem", suffix := ← j.getObjValAs? String "suffix" }
  let tmp := src.dir ++ "/.tmp"
  let r : Tools.Req := { tool := tool, src := src, srcState := st, out := out, authorOk := ← j.getObjValAs? Bool "author_ok",
                         nCompute := ← j.getObjValAs? Nat "n_compute", skipped := ← j.getObjValAs? Nat "skipped",
                         result := "RESULT", fault := fault, tmp := tmp }
  let existing ← j.getObjValAs? (List String) "existing"
  let present ← j.getObjValAs? Bool "src_present"
  let fs0 : Tools.FS := fun p => if p ∈ existing && (p != src.str || present) then some ("OLD:" ++ p) else none
  let (oc, fs1) := Tools.run r fs0
  let paths := (existing ++ [Tools.outPath r, tmp]).eraseDups
  let changed := paths.filter fun p => fs1 p != fs0 p
  pure <| Json.mkObj [("outcome", toJson (match oc with | .ok => "ok" | .error => "error")),
    ("changed", toJson changed), ("out", toJson (Tools.outPath r)), ("exit", toJson (Tools.exitCode r fs0))]

/-! ### package level save (C11) -/
def parsePart (j : Json) : Except String Pkg.Part := do
  pure { name := ← j.getObjValAs? String "name", ctype := ← j.getObjValAs? String "ct", content := ← j.getObjValAs? String "hash" }
def parseRel (j : Json) : Except String Pkg.Rel := do
  pure { id := ← j.getObjValAs? String "id", type := ← j.getObjValAs? String "type", target := ← j.getObjValAs? String "target",
         mode := ← j.getObjValAs? String "mode" }
def handlePkgSave (j : Json) : Except String Json := do
  let parts ← (← j.getObjValAs? (Array Json) "parts").toList.mapM parsePart
  let rels ← (← j.getObjValAs? (Array Json) "rels").toList.mapM parseRel
  let stories ← (← j.getObjValAs? (Array Json) "stories").toList.mapM parsePart
  let comments ← (← j.getObjValAs? (Array Json) "comments").toList.mapM parsePart
  let newRels ← (← j.getObjValAs? (Array Json) "new_rels").toList.mapM parseRel
  let out := Pkg.save { parts := parts, docRels := rels } stories comments newRels
  pure <| Json.mkObj [
    ("parts", Json.arr (out.parts.map fun p => Json.mkObj [("name", toJson p.name), ("ct", toJson p.ctype), ("hash", toJson p.content)]).toArray),
    ("rels", Json.arr (out.docRels.map fun r => Json.mkObj [("id", toJson r.id), ("type", toJson r.type), ("target", toJson r.target), ("mode", toJson r.mode)]).toArray)]

def handle (j : Json) : Except String Json := do
  let op ← j.getObjValAs? String "op"
  match op with
  | "ping" => pure (Json.mkObj [("pong", toJson true)])
  | "diff" => handleDiff j
  | "trim" => handleTrim j
  | "isspace" => handleIsSpace j
  | "isword" => handleIsWord j
  | "init" => handleInitOp j
  | "extract" => handleExtract j
  | "normalize" => handleNormalize j
  | "apply_indexed" => handleApplyIndexed j
  | "apply_edits" => handleApplyEdits j
  | "review" => handleReview j
  | "diff_apply" => handleDiffApply j
  | "preview" => handlePreview j
  | "tool" => handleTool j
  | "pkgsave" => handlePkgSave j
  | "history" => handleHistory j
  | _ => throw s!"bad-op {op}"

partial def loop (h : IO.FS.Stream) (out : IO.FS.Stream) : IO Unit := do
  let line ← h.getLine
  if line.isEmpty then return ()
  let r := match Json.parse line with
    | .ok j => match handle j with
      | .ok r => r
      | .error e => Json.mkObj [("err", toJson e)]
    | .error e => Json.mkObj [("err", toJson s!"json: {e}")]
  out.putStrLn r.compress
  loop h out

def main : IO Unit := do
  let out ← IO.getStdout
  loop (← IO.getStdin) out
  out.flush
