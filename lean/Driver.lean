import Lean.Data.Json
import AdeuModel.Model.Str
import AdeuModel.Model.Diff
/-
Line protocol driver: one JSON object per input line, one JSON result per output line.
Imports model files only (never Lemmas/Props), so it can be compiled to a native executable.
-/
open Lean Adeu

def strJ (s : Str) : Json := Json.str (String.ofList s)

def editJ (e : Edit) : Json :=
  Json.mkObj [("idx", toJson e.idx), ("target", strJ e.target), ("new", strJ e.new)]

def getStr (j : Json) (k : String) : Except String Str := do
  let s ← j.getObjValAs? String k
  pure s.toList

def parseOp (s : String) : Except String Diff.Op :=
  match s with
  | "eq" => pure .eq | "del" => pure .del | "ins" => pure .ins
  | _ => throw s!"bad diff op {s}"

def parseDiffs (j : Json) : Except String Diff.DiffList := do
  let arr ← j.getObjValAs? (Array Json) "diffs"
  arr.toList.mapM fun d => do
    let o ← d.getObjValAs? String "o"
    let t ← d.getObjValAs? String "t"
    pure (← parseOp o, t.toList)

def handleDiff (j : Json) : Except String Json := do
  let ds ← parseDiffs j
  let es := Diff.editsOfDiffs ds
  let orig := Diff.src ds
  pure <| Json.mkObj [
    ("edits", Json.arr (es.map editJ).toArray),
    ("src", strJ orig), ("dst", strJ (Diff.dst ds)),
    ("hyp", Json.mkObj [("Normal", toJson (Diff.noDelDelB ds))]),
    ("concl", Json.mkObj [
      ("apply", toJson (applyEdits orig es == Diff.dst ds)),
      ("sorted", toJson (sortedFromB 0 es)),
      ("targets_at", toJson (targetsAtB orig es))])]

def handle (j : Json) : Except String Json := do
  let op ← j.getObjValAs? String "op"
  match op with
  | "ping" => pure (Json.mkObj [("pong", toJson true)])
  | "diff" => handleDiff j
  | _ => throw s!"bad-op {op}"

partial def loop (h : IO.FS.Stream) (out : IO.FS.Stream) : IO Unit := do
  let line ← h.getLine
  if line.isEmpty then return ()
  let r := match Json.parse line with
    | .ok j => match handle j with
      | .ok r => r
      | .error e => Json.mkObj [("err", toJson e)]
    | .error e => Json.mkObj [("err", toJson s!"json: {e}")]
  out.putStrLn r.compress
  loop h out

def main : IO Unit := do
  let out ← IO.getStdout
  loop (← IO.getStdin) out
  out.flush
