import io, random, sys, logging, structlog, collections, traceback
structlog.configure(wrapper_class=structlog.make_filtering_bound_logger(logging.CRITICAL))
from adeu.redline.engine import RedlineEngine
from adeu.models import DocumentEdit
import fuzz_walk as fw
ALPH = list("ab cd.,;:'\"“”‘’[]_*#(){}+-=<>|\\/?!\n\t") + ["é","中","\U0001F600","́"," "," ","[___]","**","__","{++","--}","# "]
def rs(r, n): return "".join(r.choice(ALPH) for _ in range(r.randint(0,n)))
def main():
    N=int(sys.argv[1]); stats=collections.Counter(); shown=0
    for seed in range(N):
        r=random.Random(seed); b=fw.build(seed % 60)
        e=RedlineEngine(io.BytesIO(b))
        words=e.mapper.full_text.split()
        edits=[]
        for _ in range(r.randint(1,5)):
            k=r.random()
            if k<0.4 and words: t=" ".join(r.sample(words, 1)) if r.random()<0.5 else " ".join(words[(i:=r.randrange(len(words))):i+r.randint(1,4)])
            elif k<0.5: t=""
            else: t=rs(r,8)
            edits.append(DocumentEdit(target_text=t, new_text=rs(r,12), comment=r.choice([None,"","c\nd",rs(r,5)])))
        try:
            a,s=e.apply_edits(edits); e.save_to_stream()
            if a+s!=len(edits): stats["COUNT"]+=1
            stats["ok"]+=1
        except Exception as ex:
            key=type(ex).__name__+":"+traceback.extract_tb(ex.__traceback__)[-1].name
            stats[key]+=1
            if shown<int(sys.argv[2]): shown+=1; print(seed, key, repr(str(ex))[:120], [(x.target_text,x.new_text) for x in edits][:3])
    print(dict(stats))
main()
