import itertools, sys, logging, structlog, collections
structlog.configure(wrapper_class=structlog.make_filtering_bound_logger(logging.CRITICAL))
from adeu.diff import generate_edits_from_text
TOK = ["a","b","ab"," ","  ","\n",".",",","\U0001F600","é"]
def check(a,b):
    es = generate_edits_from_text(a,b)
    prob=[]
    spans=[]
    for e in es:
        i=e._match_start_index; t=e.target_text
        if a[i:i+len(t)]!=t: prob.append("TARGET_NOT_AT_INDEX")
        spans.append((i,i+len(t),e.new_text))
    ss=sorted(spans, key=lambda x:(x[0],x[1]))
    for (s1,e1,_),(s2,e2,_) in zip(ss,ss[1:]):
        if s2<e1: prob.append("OVERLAP")
    # apply descending (stable: later edits first for equal starts)
    out=a
    for s,e,n in sorted(spans,key=lambda x:x[0],reverse=True): out=out[:s]+n+out[e:]
    if out!=b: prob.append("APPLY_MISMATCH")
    if a==b and es: prob.append("NONEMPTY_ON_EQUAL")
    return prob, es
def main():
    stats=collections.Counter(); shown=0; n=0
    L=int(sys.argv[1])
    seqs=[s for k in range(L+1) for s in itertools.product(TOK, repeat=k)]
    for x in seqs:
        for y in seqs:
            a="".join(x); b="".join(y); n+=1
            p,es=check(a,b)
            for q in set(p): stats[q]+=1
            if p and shown<6: shown+=1; print(repr(a),repr(b),p,[(e.target_text,e.new_text,e._match_start_index) for e in es])
    print(n, dict(stats))
    
if __name__=='__main__': main()
