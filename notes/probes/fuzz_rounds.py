import io, random, sys, logging, structlog, zipfile, re, collections, os
structlog.configure(wrapper_class=structlog.make_filtering_bound_logger(logging.CRITICAL))
from lxml import etree
from adeu.ingest import extract_text_from_stream
from adeu.redline.engine import RedlineEngine
from adeu.models import DocumentEdit, ReviewAction
import fuzz_walk as fw
from fuzz_engine import paras, NS, ME
def ids(b):
    root = etree.fromstring(zipfile.ZipFile(io.BytesIO(b)).read("word/document.xml"))
    return [(el.tag.split('}')[1], el.get(NS+"id"), el.get(NS+"author")) for el in root.iter(NS+"ins", NS+"del")]
def pick(r, b, used):
    acc = paras(b, "accept"); full = extract_text_from_stream(io.BytesIO(b), clean_view=True)
    root0 = etree.fromstring(zipfile.ZipFile(io.BytesIO(b)).read('word/document.xml')); plist=[p for p in root0.iter(NS+'p')]
    order = list(range(len(acc))); r.shuffle(order)
    for pi in order:
        if pi in used: continue
        t = acc[pi]
        if any(True for _ in plist[pi].iter(NS+'ins')) or any(True for _ in plist[pi].iter(NS+'del')): continue
        if "\n" in t: continue
        words=[(m.start(),m.end()) for m in re.finditer(r"\S+", t)]
        if not words: continue
        a,e = r.choice(words); tgt=t[a:e]
        if full.count(tgt)!=1 or sum(x.count(tgt) for x in acc)!=1: continue
        return pi,a,e,tgt
    return None
def run(seed):
    r = random.Random(seed); b = fw.build(seed); b0=b
    exp = paras(b, "accept"); used=set(); probs=[]
    for rnd in range(3):
        c = pick(r, b, used)
        if not c: break
        pi,a,e,tgt = c; used.add(pi); new = f"R{rnd}"+r.choice([""," x"])
        exp_now = paras(b,"accept"); exp_now[pi] = exp_now[pi][:a]+new+exp_now[pi][e:]
        eng = RedlineEngine(io.BytesIO(b), author=r.choice(["AuthA","AuthB"]))
        res = eng.apply_edits([DocumentEdit(target_text=tgt,new_text=new,comment=r.choice([None,"why"]))])
        b = eng.save_to_stream().getvalue()
        if res != (1,0): probs.append(("COUNT",rnd,res))
        if paras(b,"accept") != exp_now: probs.append(("ACCEPT",rnd,[(x,y) for x,y in zip(paras(b,"accept"),exp_now) if x!=y][:1]))
        allids=[i for _,i,_ in ids(b)]
        if len(allids)!=len(set(allids)): probs.append(("DUP_IDS",rnd,[i for i,c in collections.Counter(allids).items() if c>1][:3]))
    # accept each pending id one at a time == accept_all text
    eng = RedlineEngine(io.BytesIO(b)); eng.accept_all_revisions(); t_all = paras(eng.save_to_stream().getvalue(),"accept")
    eng = RedlineEngine(io.BytesIO(b)); id_list=[i for _,i,_ in ids(b)]
    res = eng.apply_review_actions([ReviewAction(action="ACCEPT", target_id=f"Chg:{i}") for i in id_list])
    b2 = eng.save_to_stream().getvalue()
    if paras(b2,"accept") != t_all: probs.append(("ACCEPT_EACH_NE_ALL",))
    if ids(b2): probs.append(("MARKS_LEFT", ids(b2)[:3]))
    if res != (len(id_list),0): probs.append(("REVIEW_COUNT",res,len(id_list)))
    if t_all != paras(b,"accept"): probs.append(("ACCEPTALL_NE_VIEW",))
    return probs
N=int(sys.argv[1]); stats=collections.Counter(); shown=0
for seed in range(N):
    try: p=run(seed)
    except Exception as ex: p=[("EXC",repr(ex)[:200])]
    for q in p: stats[q[0]]+=1
    if p and shown<int(sys.argv[2]): shown+=1; print("seed",seed,p)
    if not p: stats["ok"]+=1
print(dict(stats))
