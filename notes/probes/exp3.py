import io, sys, logging, zipfile, re, time, types, os, tempfile, json
import structlog
structlog.configure(wrapper_class=structlog.make_filtering_bound_logger(logging.CRITICAL))
from docx import Document
from docx.oxml import parse_xml
from docx.oxml.ns import nsdecls, qn
from adeu.ingest import extract_text_from_stream
from adeu.redline.engine import RedlineEngine
from adeu.models import DocumentEdit, ReviewAction
from adeu.markup import apply_edits_to_markdown, _find_match_in_text
from exp2 import mkxml, docxml
print("=====")
# C06 quote id
s = mkxml('<w:p><w:r><w:t xml:space="preserve">Hello </w:t></w:r><w:ins w:id="1" w:author="A" w:date="2024-01-01T00:00:00Z"><w:r><w:t xml:space="preserve">big </w:t></w:r></w:ins><w:r><w:rPr><w:b/></w:rPr><w:t>world</w:t></w:r></w:p>')
e = RedlineEngine(s)
try:
    print(e.apply_review_actions([ReviewAction(action="ACCEPT", target_id="Chg:1'x")]))
except Exception as ex: print("EXC", type(ex).__name__, ex)
print(e.apply_review_actions([ReviewAction(action="ACCEPT", target_id="Chg:9"), ReviewAction(action="REJECT", target_id="1"), ReviewAction(action="REJECT", target_id="1"), ReviewAction(action="REPLY", target_id="Com:5", text="x")]))
print(docxml(e.save_to_stream())[:300])
# C14 empty range
print(_find_match_in_text("a_b c", "__"))
print(repr(apply_edits_to_markdown("a_b c", [DocumentEdit(target_text="__", new_text="X"), DocumentEdit(target_text="b c", new_text="Q")])))
# timing
s = mkxml(''.join(f'<w:p><w:r><w:t>Paragraph number {i} with some text in it.</w:t></w:r></w:p>' for i in range(10)))
b = s.getvalue()
t=time.time()
for i in range(20):
    e = RedlineEngine(io.BytesIO(b)); e.apply_edits([DocumentEdit(target_text="number 3", new_text="no. 3", comment="c")]); e.save_to_stream()
print("per session s", (time.time()-t)/20)
t=time.time()
for i in range(20): extract_text_from_stream(io.BytesIO(b))
print("per extract s", (time.time()-t)/20)
# server shim
fm = types.ModuleType("mcp.server.fastmcp")
class FastMCP:
    def __init__(self,*a,**k): pass
    def tool(self,*a,**k): return lambda f: f
    def run(self): pass
fm.FastMCP = FastMCP
sys.modules["mcp.server.fastmcp"] = fm
import adeu.server as srv
d = tempfile.mkdtemp()
p = os.path.join(d, "a_redlined.docx"); open(p,"wb").write(b)
orig_write = None
import builtins
real_open = builtins.open
class FailingFile:
    def __init__(self, f): self.f=f
    def __enter__(self): return self
    def __exit__(self,*a): self.f.close()
    def write(self, data): raise OSError("disk full")
def fake_open(path, mode="r", *a, **k):
    f = real_open(path, mode, *a, **k)
    if "w" in mode and str(path).endswith(".docx"): return FailingFile(f)
    return f
srv.open = fake_open  # module-level name lookup falls to builtins; inject
r = srv.apply_structured_edits(p, [DocumentEdit(target_text="number 3", new_text="no. 3")], "X")
print(r, os.path.getsize(p), len(b))
