import io, sys, logging, zipfile, re, time, types, os, tempfile, json
import structlog
structlog.configure(wrapper_class=structlog.make_filtering_bound_logger(logging.CRITICAL))
from docx import Document
from adeu.ingest import extract_text_from_stream
from adeu.redline.engine import RedlineEngine
from adeu.models import DocumentEdit, ReviewAction
from exp2 import mkxml, docxml
print("=====")
# point comment
def with_comments(body, comments_xml):
    s = mkxml(body)
    e = RedlineEngine(s)  # creates comments parts
    from docx.oxml import parse_xml
    for c in comments_xml:
        e.comments_manager.comments_part.element.append(parse_xml(c))
    return e.save_to_stream()
W='xmlns:w="http://schemas.openxmlformats.org/wordprocessingml/2006/main"'
c1=f'<w:comment {W} w:id="7" w:author="Bob" w:date="2024-01-01T00:00:00Z"><w:p><w:r><w:t>pt</w:t></w:r></w:p></w:comment>'
s = with_comments('<w:p><w:r><w:t>Text ends here</w:t></w:r><w:commentRangeStart w:id="7"/><w:commentRangeEnd w:id="7"/><w:r><w:rPr><w:rStyle w:val="CommentReference"/></w:rPr><w:commentReference w:id="7"/></w:r><w:r><w:t> more</w:t></w:r></w:p>', [c1])
print('point raw   ', repr(extract_text_from_stream(s)))
e = RedlineEngine(s); print('point mapper', repr(e.mapper.full_text))
# comment range containing ref run
s = with_comments('<w:p><w:r><w:t xml:space="preserve">A </w:t></w:r><w:commentRangeStart w:id="7"/><w:r><w:t>B</w:t></w:r><w:r><w:rPr><w:rStyle w:val="CommentReference"/></w:rPr><w:commentReference w:id="7"/></w:r><w:commentRangeEnd w:id="7"/><w:r><w:t xml:space="preserve"> C</w:t></w:r></w:p>', [c1])
print('ref raw   ', repr(extract_text_from_stream(s)))
e = RedlineEngine(s); print('ref mapper', repr(e.mapper.full_text))
# heading comment multi-line
s = mkxml('<w:p><w:r><w:t>Intro text here</w:t></w:r></w:p>')
e = RedlineEngine(s); print(e.apply_edits([DocumentEdit(target_text="text", new_text="# Heading\nbody", comment="why")]))
print(repr(extract_text_from_stream(e.save_to_stream())))
s = mkxml('<w:p><w:r><w:t>Intro text here</w:t></w:r></w:p>')
e = RedlineEngine(s); print(e.apply_edits([DocumentEdit(target_text="here", new_text="here\nSecond line", comment="why")]))
print(repr(extract_text_from_stream(e.save_to_stream())))
# identical adjacent ins elems
s = mkxml('<w:p><w:ins w:id="1" w:author="A"><w:r><w:t>a</w:t></w:r></w:ins><w:ins w:id="1" w:author="A"><w:r><w:t>b</w:t></w:r></w:ins></w:p>')
print(repr(extract_text_from_stream(s)))
# adeu init shapes
from adeu import cli
import argparse, pathlib
d = tempfile.mkdtemp(); cfg = pathlib.Path(d)/"c.json"
cli._get_claude_config_path = lambda: cfg
for content in ['[1,2]', '{"mcpServers": "x"}', '{"a":1', '', '{"mcpServers": {"other": {"command":"x"}}, "z": [1.5, null]}']:
    for f in pathlib.Path(d).glob("*"): f.unlink()
    cfg.write_text(content)
    try:
        cli.handle_init(argparse.Namespace(local=False)); r = "ok"
    except BaseException as ex: r = f"EXC {type(ex).__name__}: {ex}"
    print(repr(content), '->', r, sorted(p.name for p in pathlib.Path(d).glob("*")), repr(cfg.read_text()[:80]))
