import io, sys, logging, zipfile, re
import structlog
structlog.configure(wrapper_class=structlog.make_filtering_bound_logger(logging.CRITICAL))
from docx import Document
from docx.oxml import parse_xml
from docx.oxml.ns import nsdecls, qn
from adeu.ingest import extract_text_from_stream
from adeu.redline.engine import RedlineEngine
from adeu.models import DocumentEdit, ReviewAction

W = nsdecls('w')
def mkxml(body_xml):
    d = Document()
    body = d.element.body
    for p in list(body.iterchildren(qn('w:p'))): body.remove(p)
    sect = body[-1] if len(body) else None
    frag = parse_xml(f'<w:body {W}>{body_xml}</w:body>')
    for i, ch in enumerate(list(frag)):
        body.insert(i, ch)
    s = io.BytesIO(); d.save(s); s.seek(0); return s
def docxml(s):
    s.seek(0)
    z = zipfile.ZipFile(s); x = z.read('word/document.xml').decode()
    m = re.search(r'<w:body>(.*)</w:body>', x, re.S); return m.group(1)[:1500]

def main():
    # C05: coalesce across w:ins
    s = mkxml('<w:p><w:r><w:t xml:space="preserve">Hello </w:t></w:r><w:ins w:id="1" w:author="A" w:date="2024-01-01T00:00:00Z"><w:r><w:t xml:space="preserve">big </w:t></w:r></w:ins><w:r><w:t>world</w:t></w:r></w:p>')
    print('before', repr(extract_text_from_stream(s)))
    e = RedlineEngine(s); out = e.save_to_stream()
    print('after ', repr(extract_text_from_stream(out)))
    # C05: coalesce across bookmark / commentRangeStart
    s = mkxml('<w:p><w:r><w:t>ab</w:t></w:r><w:commentRangeStart w:id="7"/><w:r><w:t>cd</w:t></w:r><w:commentRangeEnd w:id="7"/><w:r><w:t>ef</w:t></w:r></w:p>')
    e = RedlineEngine(s); print(docxml(e.save_to_stream()))
    # tab split
    s = mkxml('<w:p><w:r><w:t>Name:</w:t><w:tab/><w:t>John Smith</w:t></w:r></w:p>')
    e = RedlineEngine(s); print(e.apply_edits([DocumentEdit(target_text="Smith", new_text="Doe")]))
    print(docxml(e.save_to_stream())); print(repr(extract_text_from_stream(e.save_to_stream(), clean_view=True)))
    # vMerge
    s = mkxml('<w:tbl><w:tblPr/><w:tblGrid><w:gridCol/><w:gridCol/></w:tblGrid><w:tr><w:tc><w:tcPr><w:vMerge w:val="restart"/></w:tcPr><w:p><w:r><w:t>M</w:t></w:r></w:p></w:tc><w:tc><w:p><w:r><w:t>b</w:t></w:r></w:p></w:tc></w:tr><w:tr><w:tc><w:tcPr><w:vMerge/></w:tcPr><w:p/></w:tc><w:tc><w:p><w:r><w:t>d</w:t></w:r></w:p></w:tc></w:tr></w:tbl><w:p><w:r><w:t>end</w:t></w:r></w:p>')
    print('vmerge', repr(extract_text_from_stream(s)))
    s = mkxml('<w:tbl><w:tblPr/><w:tblGrid><w:gridCol/><w:gridCol/></w:tblGrid><w:tr><w:tc><w:tcPr><w:gridSpan w:val="2"/></w:tcPr><w:p><w:r><w:t>M</w:t></w:r></w:p></w:tc></w:tr><w:tr><w:tc><w:p><w:r><w:t>c</w:t></w:r></w:p></w:tc><w:tc><w:p><w:r><w:t>d</w:t></w:r></w:p></w:tc></w:tr></w:tbl><w:p><w:r><w:t>end</w:t></w:r></w:p>')
    print('gridspan', repr(extract_text_from_stream(s)))
    # edit inside deleted text -> nesting?
    s = mkxml('<w:p><w:r><w:t xml:space="preserve">Hello </w:t></w:r><w:del w:id="1" w:author="A" w:date="2024-01-01T00:00:00Z"><w:r><w:delText xml:space="preserve">old text </w:delText></w:r></w:del><w:r><w:t>world</w:t></w:r></w:p>')
    e = RedlineEngine(s); print(e.apply_edits([DocumentEdit(target_text="old text", new_text="new")]))
    print(docxml(e.save_to_stream()))
    # edit spanning normal + ins
    s = mkxml('<w:p><w:r><w:t xml:space="preserve">Hello </w:t></w:r><w:ins w:id="1" w:author="A" w:date="2024-01-01T00:00:00Z"><w:r><w:t xml:space="preserve">big </w:t></w:r></w:ins><w:r><w:t>world</w:t></w:r></w:p>')
    e = RedlineEngine(s); print(e.apply_edits([DocumentEdit(target_text="big world", new_text="planet")]))
    print(docxml(e.save_to_stream()))
    
if __name__=='__main__': main()
