import io, sys, logging
import structlog
structlog.configure(wrapper_class=structlog.make_filtering_bound_logger(logging.CRITICAL))
from docx import Document
from adeu.ingest import extract_text_from_stream
from adeu.redline.engine import RedlineEngine
from adeu.models import DocumentEdit
from adeu.diff import generate_edits_from_text

def mk(paras, table=None):
    d = Document()
    for p in paras:
        if isinstance(p, str): d.add_paragraph(p)
        else:
            para = d.add_paragraph()
            for t, b in p:
                r = para.add_run(t); r.bold = b
    if table:
        t = d.add_table(rows=len(table), cols=len(table[0]))
        for i,row in enumerate(table):
            for j,c in enumerate(row): t.cell(i,j).text = c
        d.add_paragraph("after table")
    s = io.BytesIO(); d.save(s); s.seek(0); return s

# C03: table
s = mk(["Hello world"], [["a","b"],["c","d"]])
raw = extract_text_from_stream(s); s.seek(0)
e = RedlineEngine(s)
print(repr(raw)); print(repr(e.mapper.full_text))
# adjacent bold runs
s = mk([[("ab", True), ("cd", True), (" x", None)]])
raw = extract_text_from_stream(s); s.seek(0)
e = RedlineEngine(s)
print(repr(raw)); print(repr(e.mapper.full_text))
# C12 pure insertion
s = mk(["Hello world"])
orig = extract_text_from_stream(s)
edits = generate_edits_from_text(orig, "Hello big world")
print([(x.target_text, x.new_text, x._match_start_index) for x in edits])
s.seek(0); e = RedlineEngine(s); print(e.apply_edits(edits))
print(repr(extract_text_from_stream(e.save_to_stream(), clean_view=True)))
print(repr(extract_text_from_stream(e.save_to_stream(), clean_view=False)))
# C02 insertion at start of non-first paragraph
s = mk(["First para", "Second para"])
e = RedlineEngine(s); print(e.apply_edits([DocumentEdit(target_text="Second para", new_text="New Second para")]))
print(repr(extract_text_from_stream(e.save_to_stream(), clean_view=True)))
# C10 deletion with comment
s = mk(["Hello big world"])
e = RedlineEngine(s); print(e.apply_edits([DocumentEdit(target_text="big ", new_text="", comment="why")]))
print(repr(extract_text_from_stream(e.save_to_stream(), clean_view=False)))
# C16 placeholder
s = mk(["Pay the fee now"])
e = RedlineEngine(s); print(e.apply_edits([DocumentEdit(target_text="fee", new_text="[___] fee")]))
print(repr(extract_text_from_stream(e.save_to_stream(), clean_view=True)))
