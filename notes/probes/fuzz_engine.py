import io, random, sys, logging, structlog, zipfile, re, collections
structlog.configure(wrapper_class=structlog.make_filtering_bound_logger(logging.CRITICAL))
from lxml import etree
from adeu.ingest import extract_text_from_stream
from adeu.redline.engine import RedlineEngine
from adeu.models import DocumentEdit
import os
import fuzz_walk as fw
NS = "{http://schemas.openxmlformats.org/wordprocessingml/2006/main}"
ME = "Adeu AI"
def paras(b, mode):
    """mode: 'accept' | 'reject_me' ; returns list of paragraph strings (tab->space, br->\\n like get_run_text)"""
    root = etree.fromstring(zipfile.ZipFile(io.BytesIO(b)).read("word/document.xml"))
    out = []
    for p in root.iter(NS+"p"):
        if any(a.tag == NS+"comment" for a in p.iterancestors()): continue
        s = []; only_my_ins = True; has_any = False
        for r in p.iter(NS+"r"):
            # nearest p ancestor must be p (skip nested paragraphs in tables inside? paragraphs don't nest)
            anc = [a for a in r.iterancestors()]
            if next(a for a in anc if a.tag == NS+"p") is not p: continue
            ins = next((a for a in anc if a.tag == NS+"ins"), None)
            dele = next((a for a in anc if a.tag == NS+"del"), None)
            mine_ins = ins is not None and ins.get(NS+"author") == ME
            mine_del = dele is not None and dele.get(NS+"author") == ME
            txt = ""
            for c in r:
                if c.tag in (NS+"t", NS+"delText"): txt += (c.text or "").replace("\t", " ")
                elif c.tag == NS+"tab": txt += " "
                elif c.tag in (NS+"br", NS+"cr"): txt += "\n"
            has_any = True
            if mode == "accept":
                if dele is None: s.append(txt)
            else:
                if mine_ins: continue
                only_my_ins = False
                if dele is not None and not mine_del: continue  # foreign deletion: keep hidden (compare accepted-of-others)
                s.append(txt)
            if not mine_ins: only_my_ins = False
        if mode == "reject_me" and has_any and only_my_ins: continue
        out.append("".join(s))
    return out
def run(seed, nedits):
    r = random.Random(seed)
    b = fw.build(seed)
    acc = paras(b, "accept")
    full = extract_text_from_stream(io.BytesIO(b), clean_view=True)
    cands = []
    root0 = etree.fromstring(zipfile.ZipFile(io.BytesIO(b)).read('word/document.xml'))
    plist = [p for p in root0.iter(NS+'p')]
    for pi, t in enumerate(acc):
        words = [(m.start(), m.end()) for m in re.finditer(r"\S+", t)]
        if not words: continue
        if os.environ.get('NOINS') and any(True for _ in plist[pi].iter(NS+'ins')): continue
        if os.environ.get('NODEL') and any(True for _ in plist[pi].iter(NS+'del')): continue
        i = r.randrange(len(words)); j = min(len(words)-1, i + r.choice([0,0,1,2]))
        a, e = words[i][0], words[j][1]
        tgt = t[a:e]
        if "\n" in tgt: continue
        if full.count(tgt) != 1 or sum(x.count(tgt) for x in acc) != 1: continue
        kind = r.choice(["rep","del","ext","pre","mid"])
        new = {"rep":"NEWWORD", "del":"", "ext":tgt+" added", "pre":"added "+tgt, "mid":tgt[:1]+"X"+tgt[1:]}[kind]
        cands.append((pi, a, e, tgt, new, kind))
    r.shuffle(cands); chosen = []; used = set()
    for c in cands:
        if c[0] in used: continue
        used.add(c[0]); chosen.append(c)
        if len(chosen) >= nedits: break
    if not chosen: return None
    exp = list(acc)
    for pi, a, e, tgt, new, kind in chosen: exp[pi] = exp[pi][:a] + new + exp[pi][e:]
    eng = RedlineEngine(io.BytesIO(b), author=ME)
    try:
        res = eng.apply_edits([DocumentEdit(target_text=c[3], new_text=c[4]) for c in chosen])
        out = eng.save_to_stream().getvalue()
    except Exception as ex:
        return ("EXC", repr(ex), chosen)
    base_after_load = paras(RedlineEngine(io.BytesIO(b)).save_to_stream().getvalue(), "accept")
    problems = []
    if res != (len(chosen), 0): problems.append(("COUNT", res))
    got = paras(out, "accept")
    if got != exp: problems.append(("ACCEPT", [ (x,y) for x,y in zip(got,exp) if x!=y][:2], len(got), len(exp)))
    rej = paras(out, "reject_me"); orig_rej = paras(b, "reject_me")
    if rej != orig_rej: problems.append(("REJECT", [ (x,y) for x,y in zip(rej,orig_rej) if x!=y][:2], len(rej), len(orig_rej)))
    return (problems, chosen) if problems else "ok"
def main():
    N = int(sys.argv[1]); ne = int(sys.argv[2]); stats = collections.Counter(); shown = 0
    for seed in range(N):
        x = run(seed, ne)
        if x is None: stats["noedit"] += 1; continue
        if x == "ok": stats["ok"] += 1; continue
        if x[0] == "EXC": stats["exc"] += 1; 
        else:
            for p in x[0]: stats[p[0]] += 1
        if shown < int(sys.argv[3]) : shown += 1; print("seed", seed, x)
    print(dict(stats))
    
if __name__=='__main__': main()
