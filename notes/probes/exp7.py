import io, zipfile, logging, structlog, hashlib
structlog.configure(wrapper_class=structlog.make_filtering_bound_logger(logging.CRITICAL))
from lxml import etree
from adeu.redline.engine import RedlineEngine
from adeu.models import DocumentEdit
from adeu.ingest import extract_text_from_stream
def c14n(b):
    try: return etree.tostring(etree.fromstring(b), method="c14n")
    except Exception: return b
for name in ["golden.docx","golden2.docx","initial.docx"]:
    b = open(f"/repo/tests/fixtures/{name}","rb").read()
    txt = extract_text_from_stream(io.BytesIO(b), clean_view=True)
    words = [w for w in txt.split() if w.isalpha() and txt.count(w)==1][:1]
    e = RedlineEngine(io.BytesIO(b)); r = e.apply_edits([DocumentEdit(target_text=words[0], new_text="ZZZ", comment="c")] if words else [])
    out = e.save_to_stream().getvalue()
    zi, zo = zipfile.ZipFile(io.BytesIO(b)), zipfile.ZipFile(io.BytesIO(out))
    ni, no = set(zi.namelist()), set(zo.namelist())
    print(name, r, "removed:", sorted(ni-no), "added:", sorted(no-ni))
    for n in sorted(ni & no):
        bi, bo = zi.read(n), zo.read(n)
        st = "bytes-equal" if bi==bo else ("c14n-equal" if c14n(bi)==c14n(bo) else "DIFF")
        if st!="bytes-equal": print("   ", n, st, len(bi), len(bo))
