import io, random, sys, logging, structlog
structlog.configure(wrapper_class=structlog.make_filtering_bound_logger(logging.CRITICAL))
from docx import Document
from docx.oxml import parse_xml
from docx.oxml.ns import nsdecls, qn
from adeu.ingest import extract_text_from_stream
from adeu.redline.mapper import DocumentMapper
from adeu.redline.engine import RedlineEngine
from adeu.redline.comments import CommentsManager
W = nsdecls('w')
WORDS = ["alpha","beta","Gamma","delta","EPS","zeta","eta","theta"]
def rnd_text(r):
    n = r.choice([0,1,1,2,3]); t = " ".join(r.choice(WORDS) for _ in range(n))
    if n and r.random()<0.5: t += " "
    return t
def run_xml(r, deleted=False):
    props = ""
    if r.random()<0.3: props += "<w:b/>"
    if r.random()<0.2: props += "<w:i/>"
    rpr = f"<w:rPr>{props}</w:rPr>" if props else ""
    tag = "w:delText" if deleted else "w:t"
    body = ""
    t = rnd_text(r)
    if t: body += f'<{tag} xml:space="preserve">{t}</{tag}>'
    if r.random()<0.15: body += "<w:tab/>"
    if r.random()<0.1: body += "<w:br/>"
    if r.random()<0.2:
        t2 = rnd_text(r)
        if t2: body += f'<{tag} xml:space="preserve">{t2}</{tag}>'
    return f"<w:r>{rpr}{body}</w:r>"
def para_xml(r, st):
    items = []
    open_c = []
    for _ in range(r.randint(0,6)):
        k = r.random()
        if k<0.5: items.append(run_xml(r))
        elif k<0.62:
            st['rev']+=1; items.append(f'<w:ins w:id="{st["rev"]}" w:author="A{r.randint(1,2)}" w:date="2024-01-01T00:00:00Z">'+"".join(run_xml(r) for _ in range(r.randint(1,2)))+'</w:ins>')
        elif k<0.74:
            st['rev']+=1; items.append(f'<w:del w:id="{st["rev"]}" w:author="A{r.randint(1,2)}" w:date="2024-01-01T00:00:00Z">'+"".join(run_xml(r, True) for _ in range(r.randint(1,2)))+'</w:del>')
        elif k<0.86:
            st['com']+=1; c = st['com']; st['comments'].append(c); open_c.append(c); items.append(f'<w:commentRangeStart w:id="{c}"/>')
        elif open_c:
            c = open_c.pop(r.randrange(len(open_c))); items.append(f'<w:commentRangeEnd w:id="{c}"/><w:r><w:rPr><w:rStyle w:val="CommentReference"/></w:rPr><w:commentReference w:id="{c}"/></w:r>')
    for c in open_c: items.append(f'<w:commentRangeEnd w:id="{c}"/><w:r><w:commentReference w:id="{c}"/></w:r>')
    style = ""
    if r.random()<0.15: style = '<w:pPr><w:pStyle w:val="Heading1"/></w:pPr>'
    return f"<w:p>{style}{''.join(items)}</w:p>"
def blocks_xml(r, st, depth=0):
    out = []
    for _ in range(r.randint(1,4) if depth==0 else r.randint(1,2)):
        if r.random()<0.25 and depth<2:
            rows = []
            for _ in range(r.randint(1,3)):
                cells = "".join(f"<w:tc>{blocks_xml(r, st, depth+1) if r.random()<0.8 else '<w:p/>'}</w:tc>" for _ in range(r.randint(1,3)))
                rows.append(f"<w:tr>{cells}</w:tr>")
            out.append(f"<w:tbl><w:tblPr/><w:tblGrid/>{''.join(rows)}</w:tbl>")
            if depth>0: out.append("<w:p/>")
        else: out.append(para_xml(r, st))
    return "".join(out)
def build(seed):
    r = random.Random(seed); st = {'rev':0,'com':0,'comments':[]}
    d = Document(); body = d.element.body
    for p in list(body.iterchildren(qn('w:p'))): body.remove(p)
    frag = parse_xml(f'<w:body {W}>{blocks_xml(r, st)}</w:body>')
    for i, ch in enumerate(list(frag)): body.insert(i, ch)
    cm = CommentsManager(d)
    prev = None
    for c in st['comments']:
        el = parse_xml(f'<w:comment {W} w:id="{c}" w:author="Bob" w:date="2024-01-0{1+c%9}T00:00:00Z"><w:p><w:r><w:t>note {c}</w:t></w:r></w:p></w:comment>')
        cm.comments_part.element.append(el)
    s = io.BytesIO(); d.save(s); return s.getvalue()
def main():
  bad = 0; N = int(sys.argv[1]); norm = len(sys.argv)>2
  for seed in range(N):
      b = build(seed)
      for clean in (False, True):
          rd = extract_text_from_stream(io.BytesIO(b), clean_view=clean)
          if norm:
              e = RedlineEngine(io.BytesIO(b)); mp = e.mapper.full_text if not clean else DocumentMapper(e.doc, clean_view=True).full_text
          else:
              mp = DocumentMapper(Document(io.BytesIO(b)), clean_view=clean).full_text
          if rd != mp:
              bad += 1
              if bad <= 4: print("MISMATCH seed", seed, "clean", clean, "\n R:", repr(rd), "\n M:", repr(mp))
  print("mismatches", bad, "of", 2*N)

if __name__=='__main__': main()
