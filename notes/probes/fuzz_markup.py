import itertools, sys, re, logging, structlog, collections, random
structlog.configure(wrapper_class=structlog.make_filtering_bound_logger(logging.CRITICAL))
from adeu.markup import apply_edits_to_markdown
from adeu.models import DocumentEdit
TOK = ["foo","bar"," ","\n","**","_","- ",'"',"“","[___]","__"]
PAT = re.compile(r"\{--(.*?)--\}|\{\+\+(.*?)\+\+\}|\{==(.*?)==\}|\{>>(.*?)<<\}", re.S)
def view(s, mode):
    def rep(m):
        d,i,h,c = m.groups()
        if d is not None: return d if mode=="reject" else ""
        if i is not None: return "" if mode=="reject" else i
        if h is not None: return h
        return ""
    return PAT.sub(rep, s)
def balanced(s):
    rest = PAT.sub("", s)
    return not re.search(r"\{--|--\}|\{\+\+|\+\+\}|\{==|==\}|\{>>|<<\}", rest)
def main():
    stats=collections.Counter(); shown=0; n=0
    L=int(sys.argv[1]); r=random.Random(1)
    texts=["".join(s) for k in range(1,L+1) for s in itertools.product(TOK, repeat=k)]
    targets=["foo","bar","foo bar","__","_","**","**foo**","[___]","[_]",'"foo"'," ","bar\nfoo"]
    for t in texts:
        for _ in range(6):
            k=r.choice([1,2,2])
            es=[DocumentEdit(target_text=r.choice(targets), new_text=r.choice(["X","","foo baz","**Y**"]), comment=r.choice([None,"c"])) for _ in range(k)]
            for hl in (False,True):
                out=apply_edits_to_markdown(t, es, include_index=r.random()<0.5, highlight_only=hl); n+=1
                p=[]
                if view(out,"reject")!=t: p.append("REJECT_NOT_LOSSLESS")
                if not balanced(out): p.append("UNBALANCED")
                if hl and ("{--" in out or "{++" in out): p.append("HL_HAS_SUGGESTION")
                for q in p: stats[q]+=1
                if p and shown<8: shown+=1; print(repr(t),[(e.target_text,e.new_text) for e in es],hl,p,repr(out))
    print(n, dict(stats))
    
if __name__=='__main__': main()
