import io, logging, structlog
structlog.configure(wrapper_class=structlog.make_filtering_bound_logger(logging.CRITICAL))
from docx import Document
from adeu.ingest import extract_text_from_stream
from adeu.redline.engine import RedlineEngine
from adeu.diff import generate_edits_from_text
def mk(paras):
    d = Document()
    for p in paras: d.add_paragraph(p)
    s = io.BytesIO(); d.save(s); s.seek(0); return s
for orig_paras, mod in [(["Hello world"], "Hello big world"), (["Hello world"], "Hello world again"), (["Hello world"], "Big Hello world"),
                        (["One two", "Three four"], "One two\n\nNew Three four"), (["One two", "Three four"], "One two extra\n\nThree four"),
                        (["a b c d"], "a X b c Y d Z")]:
    s = mk(orig_paras); orig = extract_text_from_stream(s)
    edits = generate_edits_from_text(orig, mod)
    s.seek(0); e = RedlineEngine(s); r = e.apply_edits(edits)
    out = extract_text_from_stream(e.save_to_stream(), clean_view=True)
    print(out == mod, r, repr(out), [(x.target_text, x.new_text, x._match_start_index) for x in edits])
