import io, logging, structlog
structlog.configure(wrapper_class=structlog.make_filtering_bound_logger(logging.CRITICAL))
from exp2 import mkxml, docxml
from adeu.ingest import extract_text_from_stream
from adeu.redline.engine import RedlineEngine
from adeu.models import DocumentEdit
s = mkxml('<w:p><w:r><w:rPr><w:b/></w:rPr><w:t>First line</w:t><w:br/><w:t>Second line here</w:t></w:r></w:p>')
print(repr(extract_text_from_stream(s)))
e = RedlineEngine(s); print(e.apply_edits([DocumentEdit(target_text="line here", new_text="row here")]))
print(repr(extract_text_from_stream(e.save_to_stream(), clean_view=True)))
print(repr(extract_text_from_stream(e.save_to_stream(), clean_view=False)))
