import io, sys, os, types, logging, structlog, tempfile, shutil, hashlib, contextlib
structlog.configure(wrapper_class=structlog.make_filtering_bound_logger(logging.CRITICAL))
fm = types.ModuleType("mcp.server.fastmcp")
class FastMCP:
    def __init__(self,*a,**k): pass
    def tool(self,*a,**k): return lambda f: f
    def run(self): pass
fm.FastMCP = FastMCP; sys.modules["mcp.server.fastmcp"] = fm
import adeu.server as srv
structlog.configure(wrapper_class=structlog.make_filtering_bound_logger(logging.CRITICAL))
from adeu.models import DocumentEdit
from docx import Document
SRC = os.path.dirname(srv.__file__)
class Fault(Exception): pass
def snapshot(d): return {n: hashlib.sha1(open(os.path.join(d,n),'rb').read()).hexdigest() for n in sorted(os.listdir(d))}
def run_with_fault(k, fn):
    count = [0]
    def tracer(frame, event, arg):
        if event == 'call' and frame.f_code.co_filename.startswith(SRC):
            count[0] += 1
            if count[0] == k: raise Fault(f"injected at call {k}: {frame.f_code.co_name}")
        return None
    sys.settrace(tracer)
    try: res = fn()
    except BaseException as e: res = ("RAISED", type(e).__name__, str(e))
    finally: sys.settrace(None)
    return res, count[0]
d = tempfile.mkdtemp()
doc = Document(); doc.add_paragraph("Hello big world"); src = os.path.join(d, "a_redlined.docx"); doc.save(src)
base = open(src,'rb').read()
def call(): return srv.apply_structured_edits(src, [DocumentEdit(target_text="big", new_text="small", comment="c")], "X")
res, n = run_with_fault(0, call); print("clean run:", res, "calls:", n)
bad = 0; raised = 0
for k in range(1, n+1):
    open(src,'wb').write(base)
    for f in os.listdir(d):
        if f != "a_redlined.docx": os.unlink(os.path.join(d,f))
    before = snapshot(d)
    out = io.StringIO()
    with contextlib.redirect_stdout(out):
        res, _ = run_with_fault(k, call)
    after = snapshot(d)
    if isinstance(res, tuple): raised += 1; print("k",k,res)
    elif res.startswith("Error") and before != after: bad += 1; print("k",k,"ERROR BUT FS CHANGED", res)
    if out.getvalue(): print("k",k,"STDOUT:", out.getvalue()[:80])
print("raised:", raised, "error-with-fs-change:", bad, "of", n)
shutil.rmtree(d)
