import Lean.Data.Json
open Lean

def handle (j : Json) : Json :=
  match j.getObjValAs? String "op" with
  | .ok "rev" =>
    match j.getObjValAs? (Array Nat) "s" with
    | .ok a => Json.mkObj [("r", toJson a.reverse)]
    | .error e => Json.mkObj [("err", e)]
  | _ => Json.mkObj [("err", "bad-op")]

partial def loop (h : IO.FS.Stream) : IO Unit := do
  let line ← h.getLine
  if line.isEmpty then return ()
  match Json.parse line with
  | .ok j => IO.println (handle j).compress
  | .error e => IO.println (Json.mkObj [("err", e)]).compress
  loop h

def main : IO Unit := do loop (← IO.getStdin)
