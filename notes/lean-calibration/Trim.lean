namespace Trim

/-- common prefix length, bounded by both lists -/
def cpl : List Char → List Char → Nat
  | a :: as, b :: bs => if a = b then cpl as bs + 1 else 0
  | _, _ => 0

theorem cpl_le_left : ∀ (a b : List Char), cpl a b ≤ a.length
  | [], _ => by simp [cpl]
  | _ :: _, [] => by simp [cpl]
  | a :: as, b :: bs => by
      simp only [cpl]; split
      · have := cpl_le_left as bs; simp; omega
      · simp

theorem cpl_le_right : ∀ (a b : List Char), cpl a b ≤ b.length
  | [], _ => by simp [cpl]
  | _ :: _, [] => by simp [cpl]
  | a :: as, b :: bs => by
      simp only [cpl]; split
      · have := cpl_le_right as bs; simp; omega
      · simp

theorem take_cpl : ∀ (a b : List Char) (p : Nat), p ≤ cpl a b → a.take p = b.take p
  | [], _, p => by simp [cpl]; intro h; simp [h]
  | _ :: _, [], p => by simp [cpl]
  | a :: as, b :: bs, p => by
      simp only [cpl]; split
      · rename_i h; subst h
        cases p with
        | zero => simp
        | succ p => intro hp; simp; exact take_cpl as bs p (by omega)
      · intro hp; have : p = 0 := by omega
        subst this; simp

/-- Python: while p > 0 and not sp(t[p-1]) and not sp(t[p]): p -= 1 -/
def backWord (sp : Char → Bool) (t : Array Char) : Nat → Nat
  | 0 => 0
  | p + 1 => if !sp (t.getD p ' ') && !sp (t.getD (p+1) ' ') then backWord sp t p else p + 1

theorem backWord_le (sp) (t) : ∀ p, backWord sp t p ≤ p
  | 0 => by simp [backWord]
  | p + 1 => by
      simp only [backWord]; split
      · have := backWord_le sp t p; omega
      · omega

end Trim
