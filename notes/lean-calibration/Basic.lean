namespace M

inductive Atom | ch (c : Char) | tab | br | special (p : String)
  deriving DecidableEq, Repr

structure Run where
  fmt : String
  atoms : List Atom
  deriving DecidableEq, Repr

inductive Inline
  | run (r : Run)
  | ins (id : Nat) (author : String) (runs : List Run)
  | del (id : Nat) (author : String) (runs : List Run)
  | cStart (id : Nat) | cEnd (id : Nat) | other (p : String)
  deriving DecidableEq, Repr

structure Para where
  ppr : String
  items : List Inline
  deriving DecidableEq, Repr

mutual
inductive Block
  | para (p : Para)
  | table (pr : String) (rows : List Row)
inductive Row
  | mk (pr : String) (cells : List Cell)
inductive Cell
  | mk (pr : String) (blocks : List Block)
end

mutual
def Block.text : Block → List Char
  | .para p => p.items.flatMap fun
      | .run r => r.atoms.filterMap fun | .ch c => some c | _ => none
      | _ => []
  | .table _ rows => Row.texts rows
def Row.texts : List Row → List Char
  | [] => []
  | .mk _ cells :: rs => Cell.texts cells ++ ['\n'] ++ Row.texts rs
def Cell.texts : List Cell → List Char
  | [] => []
  | .mk _ bs :: cs => Block.texts bs ++ [' ', '|', ' '] ++ Cell.texts cs
def Block.texts : List Block → List Char
  | [] => []
  | b :: bs => Block.text b ++ Block.texts bs
end

theorem texts_append (a b : List Block) : Block.texts (a ++ b) = Block.texts a ++ Block.texts b := by
  induction a with
  | nil => simp [Block.texts]
  | cons x xs ih => simp [Block.texts, ih, List.append_assoc]

#eval Block.texts [.para ⟨"", [.run ⟨"", [.ch 'a', .tab, .ch 'b']⟩]⟩, .table "" [.mk "" [.mk "" [.para ⟨"", [.run ⟨"", [.ch 'x']⟩]⟩]]]]
end M
