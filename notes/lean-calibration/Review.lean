namespace Rv

inductive MK | ins | del deriving DecidableEq, Repr
structure Mark where
  kind : MK
  id : Nat
  deriving DecidableEq, Repr

structure Entry where
  c : Char
  deleted : Bool
  marks : List Mark
  deriving DecidableEq, Repr

def isM (k : MK) (i : Nat) (m : Mark) : Bool := m.id == i && m.kind == k
def notM (k : MK) (i : Nat) (m : Mark) : Bool := !isM k i m
def hasId (i : Nat) (e : Entry) : Bool := e.marks.any (·.id == i)

def acceptE (i : Nat) (e : Entry) : List Entry :=
  if e.marks.any (isM .del i) then []
  else [{ e with marks := e.marks.filter (notM .ins i) }]

def accept (i : Nat) (d : List Entry) : List Entry := d.flatMap (acceptE i)

theorem isM_false_of_id {k i} {m : Mark} (h : (m.id == i) = false) : isM k i m = false := by
  simp [isM, h]

theorem accept_unknown (i : Nat) (d : List Entry) (h : ∀ e ∈ d, hasId i e = false) : accept i d = d := by
  induction d with
  | nil => rfl
  | cons e es ih =>
    have he := h e (by simp)
    have hes := ih (fun x hx => h x (by simp [hx]))
    simp only [accept, List.flatMap_cons] at *
    rw [hes]
    simp only [hasId, List.any_eq_false] at he
    have h1 : e.marks.any (isM .del i) = false := by
      rw [List.any_eq_false]; intro m hm; rw [isM_false_of_id]; simp; simpa using he m hm
    have h2 : e.marks.filter (notM .ins i) = e.marks := by
      apply List.filter_eq_self.mpr; intro m hm; simp [notM]; rw [isM_false_of_id]; simpa using he m hm
    simp only [acceptE, h1, h2]; rfl

theorem flatMap_comm {α} (f g : α → List α)
    (h : ∀ a, (f a).flatMap g = (g a).flatMap f) (l : List α) :
    (l.flatMap f).flatMap g = (l.flatMap g).flatMap f := by
  induction l with
  | nil => rfl
  | cons a as ih => simp [List.flatMap_append, h a, ih]

theorem any_isM_filter_notM (k k' : MK) (i j : Nat) (hij : i ≠ j) (l : List Mark) :
    (l.filter (notM k' j)).any (isM k i) = l.any (isM k i) := by
  induction l with
  | nil => rfl
  | cons m ms ih =>
    simp only [List.filter_cons]
    by_cases hm : notM k' j m = true
    · simp [hm, ih]
    · simp only [hm]
      have : isM k i m = false := by
        simp [notM, isM] at hm ⊢
        intro h; omega
      simp [this, ih]

theorem filter_notM_comm (k k' : MK) (i j : Nat) (l : List Mark) :
    (l.filter (notM k i)).filter (notM k' j) = (l.filter (notM k' j)).filter (notM k i) := by
  simp [List.filter_filter, Bool.and_comm]

theorem acceptE_comm (i j : Nat) (hij : i ≠ j) (e : Entry) :
    (acceptE i e).flatMap (acceptE j) = (acceptE j e).flatMap (acceptE i) := by
  by_cases h1 : e.marks.any (isM .del i) = true <;>
  by_cases h2 : e.marks.any (isM .del j) = true <;>
  simp [acceptE, h1, h2, any_isM_filter_notM _ _ _ _ hij, any_isM_filter_notM _ _ _ _ (Ne.symm hij)]
  congr 1; funext a; exact Bool.and_comm _ _

theorem accept_comm (i j : Nat) (hij : i ≠ j) (d : List Entry) :
    accept j (accept i d) = accept i (accept j d) :=
  flatMap_comm _ _ (acceptE_comm i j hij) d

#print axioms accept_comm
end Rv
