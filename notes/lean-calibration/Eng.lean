namespace Eng

inductive MK | ins | del deriving DecidableEq, Repr
structure Mark where
  kind : MK
  id : Nat
  deriving DecidableEq, Repr

structure Entry where
  c : Char
  fmt : Nat
  marks : List Mark      -- outermost first
  cut : Bool             -- a new run starts here
  deriving DecidableEq, Repr

/-- canonical content: forget run boundaries -/
def canon (es : List Entry) : List (Char × Nat × List Mark) := es.map fun e => (e.c, e.fmt, e.marks)

/-- split: make position i a run boundary -/
def setCut : Nat → List Entry → List Entry
  | _, [] => []
  | 0, e :: es => { e with cut := true } :: es
  | i+1, e :: es => e :: setCut i es

theorem canon_setCut (i : Nat) (es : List Entry) : canon (setCut i es) = canon es := by
  induction es generalizing i with
  | nil => cases i <;> rfl
  | cons e es ih => cases i with
    | zero => simp [setCut, canon]
    | succ i => simp only [setCut, canon, List.map_cons] at *; rw [ih]

/-- wrap entries [0, n) of the list in deletions: every run (maximal cut-free group) gets the next id.
    `cur` is the id of the run we are in. Returns the new entries and the last id used. -/
def delPrefix : Nat → Nat → List Entry → List Entry × Nat
  | 0, cur, es => (es, cur)
  | _, cur, [] => ([], cur)
  | n+1, cur, e :: es =>
      let id := if e.cut then cur + 1 else cur
      let (r, last) := delPrefix n id es
      ({ e with marks := e.marks ++ [⟨.del, id⟩] } :: r, last)

/-- delete range [i, i+n): first position must be a cut (the engine splits first) -/
def delRange : Nat → Nat → Nat → List Entry → List Entry × Nat
  | 0, n, cur, es => delPrefix n cur es
  | _, _, cur, [] => ([], cur)
  | i+1, n, cur, e :: es => let (r, last) := delRange i n cur es; (e :: r, last)

/-- reject everything this session created: marks with id > base are popped / entries inserted by them dropped -/
def newIns (base : Nat) (m : Mark) : Bool := m.kind == .ins && decide (base < m.id)
def keep (base : Nat) (m : Mark) : Bool := !(m.kind == .del && decide (base < m.id))

def rejectE (base : Nat) (e : Entry) : List Entry :=
  if e.marks.any (newIns base) then []
  else [{ e with marks := e.marks.filter (keep base) }]

def rejectRun (base : Nat) (es : List Entry) : List Entry := es.flatMap (rejectE base)

def Old (base : Nat) (es : List Entry) : Prop := ∀ e ∈ es, ∀ m ∈ e.marks, m.id ≤ base

theorem rejectE_old (base : Nat) (e : Entry) (h : ∀ m ∈ e.marks, m.id ≤ base) : rejectE base e = [e] := by
  have h1 : e.marks.any (newIns base) = false := by
    rw [List.any_eq_false]; intro m hm; have := h m hm; simp [newIns]; omega
  have h2 : e.marks.filter (keep base) = e.marks := by
    apply List.filter_eq_self.mpr; intro m hm; have := h m hm; simp [keep]; omega
  simp only [rejectE, h1, h2]; rfl

theorem rejectRun_old (base : Nat) (es : List Entry) (h : Old base es) : rejectRun base es = es := by
  induction es with
  | nil => rfl
  | cons e es ih =>
    have he := rejectE_old base e (h e (by simp))
    have := ih (fun x hx => h x (by simp [hx]))
    simp only [rejectRun, List.flatMap_cons] at *
    rw [he, this]; rfl

theorem delPrefix_last_ge (n cur : Nat) (es : List Entry) : cur ≤ (delPrefix n cur es).2 := by
  induction es generalizing n cur with
  | nil => cases n <;> simp [delPrefix]
  | cons e es ih => cases n with
    | zero => simp [delPrefix]
    | succ n =>
      simp only [delPrefix]
      have := ih (n := n) (cur := if e.cut then cur + 1 else cur)
      have h2 : cur ≤ (if e.cut then cur + 1 else cur) := by split <;> omega
      exact Nat.le_trans h2 this

/-- rejecting the session's marks undoes a prefix deletion, provided the first entry starts a run
    (`cut`, which the engine guarantees by splitting) so that every id used is > base -/
theorem reject_delPrefix (base cur n : Nat) (es : List Entry) (h : Old base es) (hc : base ≤ cur)
    (hfirst : base < cur ∨ (0 < n → ∀ e ∈ es.head?, e.cut = true)) :
    canon (rejectRun base (delPrefix n cur es).1) = canon es := by
  induction es generalizing n cur with
  | nil => cases n <;> simp [delPrefix, rejectRun, canon]
  | cons e es ih =>
    cases n with
    | zero => simp only [delPrefix]; rw [rejectRun_old base _ h]
    | succ n =>
      simp only [delPrefix]
      have hid : base < (if e.cut then cur + 1 else cur) := by
        rcases hfirst with h1 | h1
        · split <;> omega
        · have := h1 (by omega) e (by simp); simp [this]; omega
      have hold : ∀ m ∈ e.marks, m.id ≤ base := h e (by simp)
      have ih' := ih (n := n) (cur := if e.cut then cur + 1 else cur) (fun x hx => h x (by simp [hx])) (by omega) (Or.inl hid)
      -- the head entry: the new del mark is popped, old marks stay
      have h1 : (e.marks ++ [(⟨.del, if e.cut then cur + 1 else cur⟩ : Mark)]).any (newIns base) = false := by
        rw [List.any_eq_false]; intro m hm
        rcases List.mem_append.1 hm with hm | hm
        · have := hold m hm; simp [newIns]; omega
        · simp at hm; subst hm; simp [newIns]
      have h2 : (e.marks ++ [(⟨.del, if e.cut then cur + 1 else cur⟩ : Mark)]).filter (keep base) = e.marks := by
        rw [List.filter_append]
        have : e.marks.filter (keep base) = e.marks := by
          apply List.filter_eq_self.mpr; intro m hm; have := hold m hm; simp [keep]; omega
        rw [this]; simp [keep, hid]
      simp only [rejectRun, List.flatMap_cons, rejectE, h1, h2] at ih' ⊢
      simp only [canon, List.map_append, List.map_cons, List.map_nil] at ih' ⊢
      simp [ih']

#print axioms reject_delPrefix
end Eng
