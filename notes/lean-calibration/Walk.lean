namespace Wk
abbrev Str := List Char

inductive Item
  | run (pre body suf : Str)       -- markers and real text (already newline-free here)
  | cs (i : Nat) | ce (i : Nat) | is (i : Nat) | ie | ds (i : Nat) | de
  deriving Repr

structure St where
  ins : Option Nat := none
  del : Option Nat := none
  coms : List Nat := []
  deriving Repr, DecidableEq

inductive Wr | none | del | ins | hl deriving DecidableEq, Repr
def Wr.open : Wr → Str | .none => [] | .del => "{--".toList | .ins => "{++".toList | .hl => "{==".toList
def Wr.close : Wr → Str | .none => [] | .del => "--}".toList | .ins => "++}".toList | .hl => "==}".toList

def wrapOf (s : St) : Wr :=
  if s.del.isSome then .del else if s.ins.isSome then .ins else if s.coms ≠ [] then .hl else .none

def upd (s : St) : Item → St
  | .cs i => { s with coms := i :: s.coms }
  | .ce i => { s with coms := s.coms.filter (· != i) }
  | .is i => { s with ins := some i }
  | .ie => { s with ins := none }
  | .ds i => { s with del := some i }
  | .de => { s with del := none }
  | .run .. => s

/-- lookahead shared by both walkers -/
def nextRedline (ins del : Bool) : List Item → Bool
  | [] => false
  | .run .. :: _ => ins || del
  | .is _ :: r => nextRedline true del r
  | .ie :: r => nextRedline false del r
  | .ds _ :: r => nextRedline ins true r
  | .de :: r => nextRedline ins false r
  | _ :: r => nextRedline ins del r

variable (mb : List St → Str)   -- metadata block renderer, shared

def flushI (w : Wr) (p : Str) : Str := if p = [] then [] else w.open ++ p ++ w.close

/-- ingest-like walker: output string -/
def ingest (s : St) (w : Wr) (p : Str) (dm : List St) : List Item → Str
  | [] => flushI w p ++ (if dm = [] then [] else mb dm)
  | .run a b c :: r =>
      let seg := a ++ b ++ c
      if seg = [] then ingest s w p dm r else
      let nw := wrapOf s
      let dm' := dm ++ [s]
      let defer := (s.ins.isSome || s.del.isSome) && nextRedline s.ins.isSome s.del.isSome r
      if p ≠ [] ∧ nw = w then
        if defer then ingest s w (p ++ seg) dm' r
        else flushI w (p ++ seg) ++ mb dm' ++ ingest s .none [] [] r
      else
        if defer then flushI w p ++ ingest s nw seg dm' r
        else flushI w p ++ flushI nw seg ++ mb dm' ++ ingest s .none [] [] r
  | ev :: r => flushI w p ++ ingest (upd s ev) .none [] dm r

/-- mapper-like walker: spans (isReal, text) -/
abbrev Span := Bool × Str
def parts (a b c : Str) : List Span :=
  (if a = [] then [] else [(false, a)]) ++ (if b = [] then [] else [(true, b)]) ++ (if c = [] then [] else [(false, c)])

def flushM (w : Wr) (p : List Span) : List Span :=
  if p = [] then [] else (if w.open = [] then [] else [(false, w.open)]) ++ p ++ (if w.close = [] then [] else [(false, w.close)])

def mapper (s : St) (w : Wr) (p : List Span) (dm : List St) : List Item → List Span
  | [] => flushM w p ++ (if dm = [] then [] else [(false, mb dm)])
  | .run a b c :: r =>
      let ps := parts a b c
      if ps = [] then mapper s w p dm r else
      let nw := wrapOf s
      let dm' := dm ++ [s]
      let defer := (s.ins.isSome || s.del.isSome) && nextRedline s.ins.isSome s.del.isSome r
      if p ≠ [] ∧ nw = w then
        if defer then mapper s w (p ++ ps) dm' r
        else flushM w (p ++ ps) ++ [(false, mb dm')] ++ mapper s .none [] [] r
      else
        if defer then flushM w p ++ mapper s nw ps dm' r
        else flushM w p ++ flushM nw ps ++ [(false, mb dm')] ++ mapper s .none [] [] r
  | ev :: r => flushM w p ++ mapper (upd s ev) .none [] dm r

def txt (l : List Span) : Str := l.flatMap (·.2)

@[simp] theorem txt_append (a b : List Span) : txt (a ++ b) = txt a ++ txt b := by simp [txt]
@[simp] theorem txt_nil : txt [] = [] := rfl
@[simp] theorem txt_cons (x : Span) (xs : List Span) : txt (x :: xs) = x.2 ++ txt xs := by simp [txt]
@[simp] theorem txt_single (b : Bool) (s : Str) : txt [(b, s)] = s := by simp [txt]

theorem txt_parts (a b c : Str) : txt (parts a b c) = a ++ b ++ c := by
  simp only [parts]; split <;> split <;> split <;> simp_all [txt]

theorem parts_nil_iff (a b c : Str) : parts a b c = [] ↔ a ++ b ++ c = [] := by
  simp only [parts]; split <;> split <;> split <;> simp_all

/-- pending spans never contain empty texts, so emptiness of text and of the list coincide -/
def NE (p : List Span) : Prop := ∀ x ∈ p, x.2 ≠ []

theorem NE_parts (a b c : Str) : NE (parts a b c) := by
  intro x hx; simp only [parts] at hx
  split at hx <;> split at hx <;> split at hx <;> simp_all <;> (try rcases hx with h | h | h) <;> simp_all

theorem txt_nil_iff {p : List Span} (h : NE p) : txt p = [] ↔ p = [] := by
  constructor
  · intro ht
    cases p with
    | nil => rfl
    | cons x xs =>
      have := h x (by simp)
      simp [txt] at ht; exact absurd ht.1 this
  · intro h; subst h; rfl

theorem txt_flushM (w : Wr) (p : List Span) (h : NE p) : txt (flushM w p) = flushI w (txt p) := by
  unfold flushM flushI
  by_cases hp : p = []
  · subst hp; simp
  · have : txt p ≠ [] := fun e => hp ((txt_nil_iff h).1 e)
    simp only [hp, this, if_false]
    cases w <;> simp [Wr.open, Wr.close]

theorem NE_append {p q : List Span} (hp : NE p) (hq : NE q) : NE (p ++ q) := by
  intro x hx; rcases List.mem_append.1 hx with h | h
  · exact hp x h
  · exact hq x h

theorem walkers_agree (items : List Item) :
    ∀ (s : St) (w : Wr) (p : List Span) (dm : List St), NE p →
      txt (mapper mb s w p dm items) = ingest mb s w (txt p) dm items := by
  induction items with
  | nil =>
    intro s w p dm hp
    simp only [mapper, ingest, txt_append, txt_flushM w p hp]
    split <;> simp
  | cons it r ih =>
    intro s w p dm hp
    cases it with
    | run a b c =>
      have hps := NE_parts a b c
      have hnil := parts_nil_iff a b c
      have hE : NE ([] : List Span) := by intro x hx; simp at hx
      simp only [mapper, ingest]
      by_cases hseg : a ++ b ++ c = []
      · have : parts a b c = [] := hnil.2 hseg
        rw [if_pos this, if_pos hseg]; exact ih s w p dm hp
      · have hpn : parts a b c ≠ [] := fun e => hseg (hnil.1 e)
        have hpe : (p ≠ []) ↔ (txt p ≠ []) := not_congr (txt_nil_iff hp).symm
        rw [if_neg hpn, if_neg hseg]
        generalize ((s.ins.isSome || s.del.isSome) && nextRedline s.ins.isSome s.del.isSome r) = d
        by_cases hc : p ≠ [] ∧ wrapOf s = w
        · have hc' : txt p ≠ [] ∧ wrapOf s = w := ⟨hpe.1 hc.1, hc.2⟩
          rw [if_pos hc, if_pos hc']
          cases d
          · simp only [Bool.false_eq_true, if_false, txt_append, txt_single, txt_flushM _ _ (NE_append hp hps), txt_parts]
            rw [ih s .none [] [] hE]; simp
          · simp only [if_true]
            rw [ih s w (p ++ parts a b c) _ (NE_append hp hps)]; simp [txt_parts]
        · have hc' : ¬ (txt p ≠ [] ∧ wrapOf s = w) := fun h => hc ⟨hpe.2 h.1, h.2⟩
          rw [if_neg hc, if_neg hc']
          cases d
          · simp only [Bool.false_eq_true, if_false, txt_append, txt_single, txt_flushM _ _ hp, txt_flushM _ _ hps, txt_parts]
            rw [ih s .none [] [] hE]; simp
          · simp only [if_true, txt_append, txt_flushM _ _ hp]
            rw [ih s (wrapOf s) (parts a b c) _ hps]; simp [txt_parts]
    | cs i => simp only [mapper, ingest, txt_append, txt_flushM _ _ hp]; rw [ih _ .none [] dm (by intro x hx; simp at hx)]; simp
    | ce i => simp only [mapper, ingest, txt_append, txt_flushM _ _ hp]; rw [ih _ .none [] dm (by intro x hx; simp at hx)]; simp
    | is i => simp only [mapper, ingest, txt_append, txt_flushM _ _ hp]; rw [ih _ .none [] dm (by intro x hx; simp at hx)]; simp
    | ie => simp only [mapper, ingest, txt_append, txt_flushM _ _ hp]; rw [ih _ .none [] dm (by intro x hx; simp at hx)]; simp
    | ds i => simp only [mapper, ingest, txt_append, txt_flushM _ _ hp]; rw [ih _ .none [] dm (by intro x hx; simp at hx)]; simp
    | de => simp only [mapper, ingest, txt_append, txt_flushM _ _ hp]; rw [ih _ .none [] dm (by intro x hx; simp at hx)]; simp

#print axioms walkers_agree
end Wk
